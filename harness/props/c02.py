"""C02 — every execution engine implements the defined semantics (specification + NanoCore model)."""
import json, os, collections, re
from lib.common import *
from lib.nano_ast import *
from lib.gen_prog import Gen
from lib import families
from lib.sem_common import *
from lib.run_prog import Engines

PROP = "C02"
OPNAME = {"+": "add", "-": "sub", "*": "mul", "/": "div", "%": "mod", "==": "eq", "!=": "ne", "<": "lt", "<=": "le",
          ">": "gt", ">=": "ge", "un-": "neg", "unabs": "abs"}


def corpus(ctx):
    progs = dict(("fam_" + k, v) for k, v in families.all_families().items())
    n = 40 if ctx.tier == "quick" else 500
    for k in range(n):
        progs["gen_%d_%d" % (ctx.seed, k)] = Gen(ctx.seed * 7000003 + k).program()
    for k in range(n // 3):
        progs["genmap_%d_%d" % (ctx.seed, k)] = Gen(ctx.seed * 7000003 + 500000 + k, features={"maps": True, "fnvals": k % 2 == 1}).program()
    return progs


def table_program(cases):
    """one native/VM program printing the result of every (op, a, b) case, one line each; operands reach the
    operator through function parameters so that no C compiler folds constants"""
    funcs = []
    for op, nm in OPNAME.items():
        if op.startswith("un"):
            body = Un("-", V("a")) if op == "un-" else Call("abs", V("a"))
            funcs.append(Func("op_" + nm, [("a", "int")], "int", [Ret(body)]))
        else:
            rt = "bool" if op in ("==", "!=", "<", "<=", ">", ">=") else "int"
            funcs.append(Func("op_" + nm, [("a", "int"), ("b", "int")], rt, [Ret(Bin(op, V("a"), V("b")))]))
    body = []
    for c in cases:
        nm = "op_" + OPNAME[c["op"]]
        args = [E("int", i=c["a"])] if c["op"].startswith("un") else [E("int", i=c["a"]), E("int", i=c["b"])]
        body.append(Println(Call(nm, *args)))
    body.append(Ret(I(0)))
    return Program(funcs + [Func("main", [], "int", body)])


def want_line(c, coq=False):
    v = c["coq_v"] if coq else c["v"]
    if c["t"] == "bool":
        return "true" if v[3] == 1 else "false"
    return str(limbs_to_int(v))


def operator_table(ctx, eng, stats, samples):
    r = tlc(ctx, "NanoSemOps", xss="256m", timeout=900)
    if r.violated:
        raise InfraError("NanoSemOps: %s violated on the specification itself\n%s" % (r.violated, "\n".join(r.trace[:2])))
    cases = sorted(r.records, key=lambda c: (c["op"], c["a"], c["b"]))
    ok = [c for c in cases if c["status"] == "ok" and not (c["op"] in ("/", "%") and c["a"] == [32768, 0, 0, 0] and c["b"] == [65535] * 4)]
    edge = [c for c in cases if c["status"] == "ok" and c not in ok]          # -2^63 / -1 and -2^63 % -1: run alone
    stats["table_cases"] = len(cases); stats["table_div0_excluded"] = len([c for c in cases if c["status"] != "ok"])
    ks = known_switches(PROP)
    chunks = [ok[i:i + 700] for i in range(0, len(ok), 700)] + [[c] for c in edge]
    progs = {"table_%d" % i: table_program(ch) for i, ch in enumerate(chunks)}
    runs, _ = run_engines(ctx, progs)
    checked = 0
    trust_verified = None
    for i, ch in enumerate(chunks):
        rr = runs["table_%d" % i]
        if i == 0:      # the operator functions are what nanoc labels `verified` (NanoCore subset)
            t = subprocess.run([os.path.join(eng.bin, "nanoc_c"), "p.nano", "--trust-report"], cwd=rr["dir"], env=eng.env(),
                               stdout=subprocess.PIPE, stderr=subprocess.STDOUT, timeout=120).stdout.decode(errors="replace")
            trust_verified = set(re.findall(r"^\s*(op_\w+)\(.*\[verified", t, re.M))
        for engine in ("native", "vm"):
            x = rr[engine]
            if engine == "native":
                if not x["exe"]:
                    ctx.violation("operator table program is accepted but native build fails: " + compile_class(x),
                                  ctx.save_replay("table_%d.nano" % i, rr["src"]))
                    continue
                x = x["run"]
            lines = x["out"].decode(errors="replace").split("\n")
            if x["sig"] and len(ch) == 1 and x["sig"] == 8 and "DIV_MIN_NEG1_TRAPS" in ks and engine == "native":
                ctx.known(ks["DIV_MIN_NEG1_TRAPS"], "native (%s %s %s) raises SIGFPE" % (ch[0]["op"], limbs_to_int(ch[0]["a"]), limbs_to_int(ch[0]["b"])))
                stats["known:" + ks["DIV_MIN_NEG1_TRAPS"]] += 1
                continue
            for k, c in enumerate(ch):
                checked += 1
                got = lines[k] if k < len(lines) else "<missing: run ended with %s>" % (observe(x)[:2],)
                if got != want_line(c):
                    rep = {"engine": engine, "op": c["op"], "a": limbs_to_int(c["a"]), "b": limbs_to_int(c["b"]),
                           "prescribed": want_line(c), "observed": got, "source": rr["src"]}
                    ctx.violation("%s: (%s %d %d) = %s, prescribed %s" % (engine, c["op"], rep["a"], rep["b"], got, want_line(c)),
                                  ctx.save_replay("table_%s_%s_%d.json" % (engine, OPNAME[c["op"]], k), json.dumps(rep, indent=1)))
                    break
                # the proved NanoCore semantics (Coq: floor division) for functions labelled verified
                if trust_verified and ("op_" + OPNAME[c["op"]]) in trust_verified and c["coq_status"] == "ok" and got != want_line(c, coq=True):
                    if "COQ_FLOOR_DIV" in ks:
                        ctx.known(ks["COQ_FLOOR_DIV"], "a function labelled verified computes (%s %d %d) = %s; the Coq semantics gives %s"
                                  % (c["op"], limbs_to_int(c["a"]), limbs_to_int(c["b"]), got, want_line(c, coq=True)))
                        stats["known:" + ks["COQ_FLOOR_DIV"]] += 1
                    else:
                        ctx.violation("verified function disagrees with the Coq semantics on (%s %d %d): %s vs %s" % (
                            c["op"], limbs_to_int(c["a"]), limbs_to_int(c["b"]), got, want_line(c, coq=True)),
                            ctx.save_replay("coq_%s_%d.json" % (OPNAME[c["op"]], k), json.dumps({"case": c, "observed": got}, indent=1)))
                        break
    stats["table_checked"] = checked
    stats["trust_verified_ops"] = len(trust_verified or ())
    samples.append({"table_case": {"op": ok[17]["op"], "a": limbs_to_int(ok[17]["a"]), "b": limbs_to_int(ok[17]["b"]), "prescribed": want_line(ok[17])}})
    return r, len(cases)


def run(ctx):
    stats = collections.Counter()
    samples = []
    eng = Engines(ctx)
    r_ops, ncases = operator_table(ctx, eng, stats, samples)
    progs = corpus(ctx)
    base, r1 = prescribe(ctx, [job(pid, p) for pid, p in progs.items()])
    runs, _ = run_engines(ctx, progs)
    failing, compared, seen = [], 0, set()
    for pid, rr in runs.items():
        o = base[pid]
        if o["status"] not in ("ok", "fault:assert"):
            stats["outside:" + o["status"]] += 1
            continue
        ex = expected(o)
        for engine in ("native", "vm"):
            x = rr[engine]
            if engine == "native":
                if not x["exe"]:
                    stats["native-no-exe:" + compile_class(x)] += 1
                    continue
                x = x["run"]
            elif vm_class(x):
                stats["vm-no-run:" + vm_class(x)] += 1
                continue
            compared += 1
            seen.add(sha(rr["src"]))
            ob = observe(x)
            if matches(ob, ex):
                stats[engine + ":as-prescribed"] += 1
                if len(samples) < 4:
                    samples.append({"program": pid, "engine": engine, "stdout": ob[2].decode(errors="replace")[:160], "exit": ob[1]})
            else:
                failing.append((pid, engine, ob))
    explained = attribute(ctx, PROP, progs, base, failing)
    for pid, engine, ob in failing:
        if (pid, engine) in explained:
            for fid in explained[(pid, engine)]:
                ctx.known(fid, "%s deviates from the prescribed behaviour, e.g. program %s" % (engine, pid))
            stats["known:" + "+".join(explained[(pid, engine)])] += 1
        else:
            rr = runs[pid]
            rep = {"program": pid, "engine": engine, "source": rr["src"],
                   "prescribed": {"status": base[pid]["status"], "stdout": render_out(base[pid]["out"]), "exit": base[pid]["exit"]},
                   "observed": {"kind": ob[0], "code": ob[1], "stdout": ob[2].decode(errors="replace")}}
            ctx.save_replay("%s_%s.nano" % (pid, engine), rr["src"])
            ctx.violation("%s run of %s differs from the prescribed behaviour" % (engine, pid),
                          ctx.save_replay("%s_%s.json" % (pid, engine), json.dumps(rep, indent=1)))
    cov = dict(programs=compared, disagreements_checked=len(failing) , samples=samples,
               evaluations=len(progs) * 2 + stats["table_checked"], distinct_nontrivial=len(seen) + ncases, classes=dict(stats),
               rule="operator table: every binary/unary operator x every ordered pair of 27 boundary operands (TLC-enumerated, distinct by construction); corpus: families + seeded random programs, each engine compared with NanoSem's prescription",
               states=r_ops.distinct + r1.distinct, transitions=r_ops.generated + r1.generated)
    # instruction level (NanoVMVal.tla through hook H7): every instruction the VM executes on the corpus is judged
    import props.c02v as c02v
    _, cov_v, ass_v = c02v.run(ctx)
    cov["instruction_level"] = {k: cov_v[k] for k in ("laws", "rule", "traces_validated_against_impl", "evaluations", "distinct_nontrivial")}
    cov["instruction_level"]["stats"] = cov_v["vmval"].get("stats")
    cov["instruction_level"]["unspecified_opcodes_seen"] = cov_v["vmval"].get("unspecified_seen", cov_v["vmval"].get("unspecified"))
    cov["traces_validated_against_impl"] = cov_v["traces_validated_against_impl"]
    cov["states"] += cov_v["states"]; cov["transitions"] += cov_v["transitions"]
    # generator exploration over the widened program universe (feature flags of lib/gen_gx.py): engines against the prescription
    from props import gx_part
    cov["generator_exploration"] = gx_part.run_part(ctx, "C02")
    # the standard library (NanoLib.tla): case table + laws + programs on native, NanoVM, nano_vm and the evaluator
    from props import c02_lib
    lstats, lsamples, lcov = c02_lib.run_lib(ctx)
    cov["library"] = dict(lcov, classes=dict(lstats), samples=lsamples[:4])
    cov["evaluations"] += lstats["table_checked"] + lstats["mix_checked"] + lstats["programs_checked"]
    cov["distinct_nontrivial"] += lstats["table_cases"]
    return "translation_validation", cov, ass_v + [
        "standard library: NanoLib.tla transcribes docs/STDLIB.md; cases tagged INFERRED follow the three engines where the documents are silent; `unspecified:*` cases are only checked for internal failures",
        "NanoSem.tla / Int64.tla are the reference (transcribed from SPECIFICATION 4-8; formal/Semantics.v for Mode coq: floor division)",
        "the Coq comparison covers / % and comparisons on the operator table; Coq's unbounded Z is compared only where no 64-bit wrap occurs",
        "x / 0 is excluded (undefined in the Coq model, engines differ by design)"]


def replay(ctx, path):
    rep = json.load(open(path))
    if "step" in rep or "instruction" in rep:          # an instruction-level artifact
        import props.c02v as c02v
        return c02v.replay(ctx, path)
    print(json.dumps({k: v for k, v in rep.items() if k != "source"}, indent=1))
    return 0
