"""C20 -- native programs and their C runtime are memory-safe; runtime containers are sequences.

Two halves (DESIGN 6/C20, notes/C20.md):

A. Container / GC half (model_checking).  spec/NativeRT.tla is model-checked exhaustively
   (sequence laws, capacity law, clone independence, rc = 0 <=> freed, rc = ext + indegree,
   free-once) and the same TLC runs print operation histories with the abstract state after
   every step.  probes/rt_probe.c (asan build of the working tree) replays every history
   through dyn_array.c / list_int.c / list_string.c / gc.c / gc_struct.c and compares length,
   capacity, contents, ref counts, liveness and fields after every step; out-of-contract
   steps must stop the program deliberately.  Any sanitizer report is a violation.

B. Generated-code half (exploration).  corpus/c20/*.nano -> real nanoc_c with
   NANO_CC=tools/nano_cc_asan.sh (ASan+UBSan on the generated C and on the runtime) -> run.
   A sanitizer report on a run is a violation.  Each program also runs on the VM; programs on
   which the engines disagree are outside the common core and are dropped (listed).

Python is glue only: expected values come out of TLC records; the probe compares.
"""
import glob
import json
import os
import re
import shutil
import subprocess
import time

from lib.common import (VERIF, SPEC, InfraError, log, sh, tlc, sha, findings_for, parallel_map, NCPU)

CORPUS = os.path.join(VERIF, "corpus", "c20")
WRAPPER = os.path.join(VERIF, "tools", "nano_cc_asan.sh")

PROBE_ENV = {
    "ASAN_OPTIONS": "detect_leaks=0:abort_on_error=1:symbolize=0:quarantine_size_mb=8:allocator_may_return_null=1",
    "UBSAN_OPTIONS": "halt_on_error=1:abort_on_error=1:print_stacktrace=0:symbolize=0",
}
MAX_CRASH_RESTARTS = 40          # per worker; a tree that crashes more often is red anyway
MAX_REPORTED = 12                # distinct violation classes written out as replay artifacts


# ----------------------------------------------------------------------------- constants
LOOSE = set()          # container families whose capacity law is not compared exactly (see extract_constants)


def extract_constants(tree):
    """INITIAL_CAPACITY / GROWTH_FACTOR of each container source (DESIGN 5.1: extracted, not frozen)."""
    out = {}
    for fam, files in (("dyn", ["dyn_array.c"]), ("list", ["list_int.c", "list_string.c"])):
        vals = set()
        for f in files:
            text = open(os.path.join(tree, "src", "runtime", f)).read()
            m1 = re.search(r"#define\s+INITIAL_CAPACITY\s+(\d+)", text)
            m2 = re.search(r"#define\s+GROWTH_FACTOR\s+(\d+)", text)
            if not (m1 and m2):
                vals.add(None)           # the growth policy is not written the way the model knows it
            else:
                vals.add((int(m1.group(1)), int(m2.group(1))))
        if len(vals) != 1 or None in vals:
            # C20 states length <= capacity, not a growth policy: histories are generated with the model's default policy
            # and the probe compares capacities of this family only against the invariant (RT_PROBE_LOOSE_CAP)
            LOOSE.add(fam)
            out[fam] = (8, 2)
        else:
            out[fam] = vals.pop()
    out["gc"] = out["dyn"]
    return out


# ----------------------------------------------------------------------------- TLC
def tlc_plan(tier):
    """(cfg, family, kind of run, simulate-count)"""
    plan = [
        ("NativeRT_dyn_mc", "dyn", "mc", 0), ("NativeRT_dyn_gen", "dyn", "gen", 0), ("NativeRT_dyn_all", "dyn", "gen", 0),
        ("NativeRT_list_mc", "list", "mc", 0), ("NativeRT_list_gen", "list", "gen", 0), ("NativeRT_list_all", "list", "gen", 0),
        ("NativeRT_gc_gen", "gc", "mcgen", 0),
        ("NativeStr_gen", "str", "mcgen", 0),
    ]
    if tier == "thorough":
        plan = [
            ("NativeRT_dyn_mc_t", "dyn", "mc", 0), ("NativeRT_dyn_gen_t", "dyn", "gen", 0), ("NativeRT_dyn_all_t", "dyn", "gen", 0),
            ("NativeRT_list_mc_t", "list", "mc", 0), ("NativeRT_list_gen", "list", "gen", 0), ("NativeRT_list_all_t", "list", "gen", 0),
            ("NativeRT_gc_gen_t", "gc", "mcgen", 0), ("NativeStr_gen_t", "str", "mcgen", 0),
            ("NativeRT_dyn_sim", "dyn", "sim", 400), ("NativeRT_list_sim", "list", "sim", 300), ("NativeRT_gc_sim", "gc", "sim", 300),
        ]
    return plan


def run_tlc_jobs(ctx, consts):
    plan = tlc_plan(ctx.tier)
    workers = max(2, NCPU // 3)

    def one(job):
        cfg, fam, kind, nsim = job
        module = "NativeStr" if fam == "str" else "NativeRT"
        kw = dict(cfg=cfg, workers=workers, timeout=1500)
        if fam != "str":
            ic, gr = consts[fam]
            kw["constants"] = {"InitialCapacity": ic, "Growth": gr}
        if kind == "sim":
            kw.update(simulate=nsim, depth=260, workers=min(4, workers))
        elif kind == "mc":
            kw["workers"] = max(4, NCPU - 4)      # the big exhaustive runs; the generation runs next to them use one worker each
        elif kind in ("gen", "mcgen"):
            # one worker: with a VIEW the representative history of a state is the first one TLC
            # finds, and only a single-threaded BFS finds the same one on every run
            kw["workers"] = 1
        r = tlc(ctx, module, **kw)
        if r.violated:
            # the model is ours: a violated invariant on it is a defect of the spec, unless the
            # extracted constants made it so (then the ASSUME names them)
            raise InfraError("%s/%s: TLC reports %s\n%s" % (module, cfg, r.violated, "\n".join(r.trace[-3:])[-3000:]))
        if kind != "sim" and "Model checking completed. No error has been found" not in r.out:
            raise InfraError("NativeRT/%s did not complete:\n%s" % (cfg, r.out[-2000:]))
        # keep the histories as compact JSON lines; drop TLC's text and the parsed objects (memory)
        r.lines = [(rec["family"], json.dumps(rec, separators=(",", ":"))) for rec in r.records if "family" in rec]
        r.records, r.out = [], ""
        return job, r

    # three TLC processes at a time keep all cores busy without oversubscribing the heap
    res = []
    for i in range(0, len(plan), 3):
        res += parallel_map(one, plan[i:i + 3], jobs=3)
    return res


# ----------------------------------------------------------------------------- replay
def hist_key(rec):
    return sha(json.dumps(rec, sort_keys=True))


def run_probe_worker(ctx, probe, hist_file, report_file, errfile):
    """Run rt_probe over one chunk, resuming after crashes.  Returns (crashes, summaries)."""
    crashes = []
    resume = None
    open(report_file, "w").close()
    for attempt in range(MAX_CRASH_RESTARTS + 1):
        cmd = [probe, hist_file, report_file]
        if resume:
            cmd += ["--resume", str(resume[0]), str(resume[1])]
        env = dict(os.environ)
        env.update(ctx.env(PROBE_ENV))
        env["RT_PROBE_FORK_EVERY"] = "16" if ctx.tier == "quick" else "4"
        if LOOSE:
            env["RT_PROBE_LOOSE_CAP"] = ",".join(sorted(LOOSE))
        with open(errfile, "ab") as ef:
            p = subprocess.run(cmd, env=env, stdout=subprocess.DEVNULL, stderr=ef, timeout=3000)
        if p.returncode == 0:
            return crashes, False
        if p.returncode == 2:
            raise InfraError("rt_probe usage/parse failure on %s" % hist_file)
        # crashed: the last "@ line kindidx kind" names the history
        last = None
        for line in open(report_file, errors="replace"):
            if line.startswith("@ "):
                last = line.split()
        if not last:
            raise InfraError("rt_probe died before its first history (rc=%d), see %s" % (p.returncode, errfile))
        tail = open(errfile, "rb").read()[-3000:].decode(errors="replace")
        crashes.append(dict(line=int(last[1]), kindidx=int(last[2]), kind=last[3], rc=p.returncode, stderr=tail))
        resume = (int(last[1]), int(last[2]))
    return crashes, True


def replay_histories(ctx, probe, records, tag):
    """records: list of JSON lines {family,h}.  Returns (fails, stats)."""
    d = ctx.dir("replay." + tag)
    n = max(1, min(NCPU, len(records) // 200 + 1))
    chunks = [[] for _ in range(n)]
    for i, r in enumerate(records):
        chunks[i % n].append(r)
    files = []
    for i, ch in enumerate(chunks):
        f = os.path.join(d, "h%02d.ndjson" % i)
        with open(f, "w") as o:
            for r in ch:
                o.write(r + "\n")
        files.append(f)

    def work(i):
        return run_probe_worker(ctx, probe, files[i], files[i] + ".rep", files[i] + ".err")

    results = parallel_map(work, list(range(n)), jobs=n)
    fails, stats = [], dict(lines=0, replays=0, steps=0, forks=0, inproc_stops=0, fails=0, devhits=0, crashes=0, gave_up=0)
    for i, (crashes, gave_up) in enumerate(results):
        stats["gave_up"] += 1 if gave_up else 0
        for c in crashes:
            stats["crashes"] += 1
            rec = json.loads(chunks[i][c["line"] - 1])
            fails.append(dict(rec=rec, kind=c["kind"], step=-1, op="?", dev="", res="",
                              what="the probe process died while replaying this history",
                              detail=c["stderr"][-1500:], crash=True))
        for line in open(files[i] + ".rep", errors="replace"):
            if not line.startswith("{"):
                continue
            try:
                j = json.loads(line)
            except ValueError:
                continue
            if j.get("summary"):
                for k in stats:
                    if k in j:
                        stats[k] += j[k]
            elif j.get("fail"):
                j["rec"] = json.loads(chunks[i][j["line"] - 1])
                fails.append(j)
    return fails, stats


def match_finding(f, findings):
    """A failure is explained by a finding iff it is the trial of a step that carries that
    finding's deviation name (and, where the entry says so, op / kind agree)."""
    if f.get("crash") or not f.get("dev"):
        return None
    if f.get("what") != "in-contract step failed":
        return None
    for k in findings:
        m = k.get("match", {})
        if m.get("dev") != f["dev"]:
            continue
        if "op" in m and m["op"] != f.get("op"):
            continue
        if "kinds" in m and f.get("kind") not in m["kinds"]:
            continue
        return k
    return None


def fail_class(f):
    return (f["rec"]["family"], f.get("kind"), f.get("op"), f.get("what"), f.get("dev"))


def judge_history_fails(ctx, fails, findings, cov):
    classes = {}
    for f in fails:
        classes.setdefault(fail_class(f), []).append(f)
    known_hits = {}
    for cls, fs in sorted(classes.items(), key=lambda kv: str(kv[0])):
        f = min(fs, key=lambda x: len(x["rec"]["h"]))
        k = match_finding(f, findings)
        if k and all(match_finding(x, findings) is k for x in fs):
            known_hits[k["id"]] = known_hits.get(k["id"], 0) + len(fs)
            ctx.known(k["id"], "%s: %d histories end in the step `%s` on kind %s (%s)" % (
                k.get("summary", ""), len(fs), f.get("op"), f.get("kind"), f.get("detail", "")[:160]))
            continue
        if len(ctx.violations) >= MAX_REPORTED:
            continue
        art = dict(type="history", family=f["rec"]["family"], kind=f.get("kind"), record=f["rec"],
                   failure={k2: v for k2, v in f.items() if k2 != "rec"}, same_class=len(fs))
        path = ctx.save_replay("hist-%s-%s.json" % (f["rec"]["family"], hist_key(art)[:10]), json.dumps(art, indent=1))
        ctx.violation("runtime %s: %s at step %s (%s %s) kind=%s: %s  [%d histories in this class]" % (
            f["rec"]["family"], f.get("what"), f.get("step"), f.get("op"), f.get("i", ""), f.get("kind"),
            f.get("detail", "")[:400], len(fs)), path)
    cov["known_history_hits"] = known_hits
    cov["history_failure_classes"] = len(classes)


# ----------------------------------------------------------------------------- generated code
def build_rtlib(ctx, tree, logfile):
    """Compile once the runtime sources nanoc_c puts on every cc command line (same flags, via the
    same wrapper) into an archive that the wrapper substitutes for them."""
    args = None
    for line in open(logfile, errors="replace"):
        a = line.rstrip("\n").split("\x1f")
        if any(x.endswith(".c") and "/src/runtime/" in x for x in a):
            args = a
            break
    if not args:
        return None
    srcs = [x for x in args if x.endswith(".c") and "/src/runtime/" in x]
    flags = [x for x in args if re.match(r"-(std=|W|I|f|g|D)", x)]
    d = ctx.dir("rtlib")

    def cc(src):
        o = os.path.join(d, os.path.basename(src)[:-2] + ".o")
        sh([WRAPPER] + flags + ["-c", src, "-o", o], env=ctx.env(), timeout=300)
        return o

    objs = parallel_map(cc, srcs)
    lib = os.path.join(d, "libnlrt_asan.a")
    sh(["ar", "rcs", lib] + objs)
    return lib


DROPPED = ("compile_failed", "engines_disagree", "native_timeout", "vm_timeout")
SAN_RE = re.compile(r"(AddressSanitizer|LeakSanitizer|UndefinedBehaviorSanitizer|runtime error:|SUMMARY: \w*Sanitizer)")


def run_program(ctx, tree, src, rtlib, log_cc=None):
    name = os.path.basename(src)[:-5]
    d = ctx.dir("prog." + name)
    shutil.copy(src, d)
    for extra in glob.glob(src[:-5] + ".*.nano"):        # helper modules of a multi-file program
        shutil.copy(extra, d)
    env = ctx.env({"NANO_CC": WRAPPER, "ASAN_OPTIONS": "detect_leaks=0:exitcode=77:symbolize=1",
                   "UBSAN_OPTIONS": "print_stacktrace=1"})
    if rtlib:
        env["NANO_CC_RTLIB"] = rtlib
    if log_cc:
        env["NANO_CC_LOG"] = log_cc
    res = dict(name=name, src=src, dir=d)
    try:
        c = sh([os.path.join(tree, "bin", "nanoc_c"), name + ".nano", "-o", name], cwd=d, env=env, timeout=600, check=False)
    except subprocess.TimeoutExpired:
        res.update(status="compile_failed", detail="nanoc_c did not finish within 600 s")
        return res
    if c.returncode != 0:
        res.update(status="compile_failed", detail=(c.stdout[-600:] + c.stderr[-1200:]))
        return res
    t = time.time()
    try:
        r = sh(["./" + name], cwd=d, env=env, timeout=300, check=False)
    except subprocess.TimeoutExpired:
        res.update(status="native_timeout", detail="")
        return res
    res["native_s"] = round(time.time() - t, 2)
    try:
        v = sh([os.path.join(tree, "bin", "nano_virt"), "--run", name + ".nano"], cwd=d, env=ctx.env(), timeout=120, check=False)
    except subprocess.TimeoutExpired:
        res.update(status="vm_timeout", detail="nano_virt --run did not finish within 120 s", native_out=r.stdout, stderr=r.stderr, native_rc=r.returncode)
        if SAN_RE.search(r.stderr):
            res["status"] = "sanitizer"
        return res
    res.update(native_rc=r.returncode, vm_rc=v.returncode, native_out=r.stdout, vm_out=v.stdout, stderr=r.stderr)
    if SAN_RE.search(r.stderr):
        only_overflow = all(("signed integer overflow" in l) for l in r.stderr.splitlines() if "runtime error:" in l) \
            and "AddressSanitizer" not in r.stderr and "runtime error:" in r.stderr
        res["status"] = "overflow_report" if only_overflow else "sanitizer"
    elif r.stdout != v.stdout or r.returncode != v.returncode:
        res["status"] = "engines_disagree"
    else:
        res["status"] = "clean"
    return res


def generated_code_half(ctx, cov, assumptions):
    tree = ctx.build("plain", nanoc=True)
    progs = sorted(p for p in glob.glob(os.path.join(CORPUS, "*.nano")) if not re.search(r"\.\w+\.nano$", p))
    if not progs:
        raise InfraError("empty corpus " + CORPUS)
    # the language-level corpus of C01-C04 (rule families in every position, boundary values, seeded generator programs)
    # goes through the same sanitised pipeline: the helpers nanoc emits into every program (int_to_string, string
    # builtins, array helpers) are only exercised by programs, not by the container probe
    from lib import families as _fam
    from lib.gen_prog import Gen as _Gen
    from lib.nano_ast import pretty as _pretty
    gdir = ctx.dir("gencorpus")
    fams = {k: v for k, v in _fam.all_families().items() if "__files__" not in v}
    for k in sorted(fams):
        open(os.path.join(gdir, "fam_%s.nano" % k), "w").write(_pretty(fams[k]))
    for k in range(12 if ctx.tier == "quick" else 200):
        open(os.path.join(gdir, "gen_%d_%d.nano" % (ctx.seed, k)), "w").write(_pretty(_Gen(ctx.seed * 7000003 + k).program()))
    for k in range(6 if ctx.tier == "quick" else 80):
        open(os.path.join(gdir, "genmap_%d_%d.nano" % (ctx.seed, k)), "w").write(_pretty(_Gen(ctx.seed * 7000003 + 500000 + k, features={"maps": True, "fnvals": k % 2 == 1}).program()))
    n_hand = len(progs)
    progs += sorted(glob.glob(os.path.join(gdir, "*.nano")))
    logf = os.path.join(ctx.scratch, "nano_cc.log")
    first = run_program(ctx, tree, progs[0], None, log_cc=logf)
    rtlib = build_rtlib(ctx, tree, logf) if os.path.exists(logf) else None
    if not rtlib:
        assumptions.append("rtlib archive could not be derived from the logged cc command; every program compiled the runtime sources itself")
    results = [first] + parallel_map(lambda p: run_program(ctx, tree, p, rtlib), progs[1:])
    by = {}
    for r in results:
        by.setdefault(r["status"], []).append(r)
    for r in by.get("sanitizer", []):
        art = dict(type="program", name=r["name"], source=open(r["src"]).read(), stderr=r["stderr"][-6000:],
                   native_rc=r["native_rc"])
        path = ctx.save_replay("prog-%s.json" % r["name"], json.dumps(art, indent=1))
        first_line = next((l for l in r["stderr"].splitlines() if SAN_RE.search(l)), "")
        ctx.violation("native program %s.nano: sanitizer report on a run inside defined behaviour: %s" % (r["name"], first_line[:300]), path)
    clean = by.get("clean", [])
    cov.update(programs=len(progs), programs_clean=len(clean),
               programs_dropped=[dict(name=r["name"], why=r["status"], detail=(r.get("detail") or "")[:300])
                                 for r in results if r["status"] in DROPPED],
               programs_overflow_only=[r["name"] for r in by.get("overflow_report", [])],
               program_sample=dict(name=clean[0]["name"], stdout=clean[0]["native_out"][:300]) if clean else None,
               rtlib=bool(rtlib))
    cov.update(programs_hand_written=n_hand, programs_generated=len(progs) - n_hand)
    if len(clean) + len(by.get("sanitizer", [])) < len(progs) // 2:
        raise InfraError("fewer than half of the C20 corpus ran to completion on both engines: %s" %
                         [(r["name"], r["status"]) for r in results if r["status"] not in ("clean", "sanitizer")][:10])
    for r in results:
        if r["status"] in DROPPED:
            log("C20 corpus: dropped %s (%s)" % (r["name"], r["status"]))


# ----------------------------------------------------------------------------- entry points
def run(ctx):
    cov, assumptions = {}, []
    findings = findings_for("C20")
    tree = ctx.build("asan")
    probe = ctx.probe("rt_probe", "asan", libs=("-ldl",))
    consts = extract_constants(tree)
    if LOOSE:
        assumptions.append("growth policy of %s not in the form INITIAL_CAPACITY/GROWTH_FACTOR: capacities of that family are only required to satisfy length <= capacity" % sorted(LOOSE))
    cov["extracted_constants"] = {k: list(v) for k, v in consts.items()}

    # --- A. model checking + generation
    jobs = run_tlc_jobs(ctx, consts)
    states = transitions = 0
    records = {"dyn": [], "list": [], "gc": [], "str": []}
    seen = set()
    generated = 0
    for (cfg, fam, kind, nsim), r in jobs:
        if kind in ("mc", "mcgen"):
            states += r.distinct
            transitions += r.generated
        for family, line in r.lines:
            generated += 1
            k = sha(line)
            if k in seen:
                continue
            seen.add(k)
            records[family].append(line)
        r.lines = []
    if not all(records.values()):
        raise InfraError("TLC printed no histories for some family: %s" % {k: len(v) for k, v in records.items()})

    all_fails, total = [], {}
    for fam in ("dyn", "list", "gc", "str"):
        fails, st = replay_histories(ctx, probe, records[fam], fam)
        all_fails += fails
        for k, v in st.items():
            total[k] = total.get(k, 0) + v
        log("C20 replay %s: %d histories, %s" % (fam, len(records[fam]), st))
    if total.get("gave_up"):
        assumptions.append("%d probe workers gave up after %d crashes each; their remaining histories were not replayed" % (total["gave_up"], MAX_CRASH_RESTARTS))
    judge_history_fails(ctx, all_fails, findings, cov)

    # stale known findings: deviation steps were generated but none failed
    devs_generated = {}
    for k in findings:
        d = k.get("match", {}).get("dev")
        if d:
            needle = '"dev":"%s"' % d
            devs_generated[d] = sum(1 for fam in records for line in records[fam] if needle in line)
    for k in findings:
        d = k.get("match", {}).get("dev")
        if d and devs_generated.get(d) and k["id"] not in ctx.known_hits:
            log("known finding %s looks stale: %d steps carrying %s were replayed and none failed" % (k["id"], devs_generated[d], d))
            cov.setdefault("stale_findings", []).append(k["id"])
    cov["deviation_steps_generated"] = devs_generated

    nontrivial = sum(1 for fam in records for line in records[fam] if line.count('"op":') >= 3)
    sample = json.loads(records["dyn"][len(records["dyn"]) // 2])
    gsample = json.loads(records["gc"][len(records["gc"]) // 2])
    cov.update(
        states=states, transitions=transitions,
        traces_validated_against_impl=total.get("replays", 0),
        histories_generated=generated,
        histories_distinct={k: len(v) for k, v in records.items()},
        steps_compared=total.get("steps", 0),
        out_of_contract_steps=dict(forked_child=total.get("forks", 0) - total.get("devhits", 0), intercepted_in_process=total.get("inproc_stops", 0)),
        evaluations=total.get("replays", 0), distinct_nontrivial=nontrivial,
        rule="one history per transition of the (length, capacity) quotient graph of NativeRT (<= 6 steps), all histories of <= 3 steps (thorough: more initial lengths, both values), "
             "per-transition cover of the gc model, thorough: -simulate histories of 200 steps; a history is distinct by the hash of its JSON record and "
             "non-trivial when it has at least two steps after construction; each dyn history is replayed for every element kind of its contract class",
        samples=[dict(family="dyn", steps=[dict(e=s["e"], len=s["s"]["len"], cap=s["s"]["cap"], elems=s["s"]["elems"]) for s in sample["h"]]),
                 dict(family="gc", steps=[dict(e=s["e"], rc=s["s"]["rc"], live=s["s"]["live"], fld=s["s"]["fld"]) for s in gsample["h"]])],
        exhaustive=True)

    # --- B. generated code
    generated_code_half(ctx, cov, assumptions)
    from props import gx_part
    cov["generator_exploration"] = gx_part.run_part(ctx, "C20")     # widened program universe through the sanitised native pipeline

    assumptions += [
        "dyn_array histories are generated for one representative kind per contract class (int for int/u8/float/bool/string/array, struct) "
        "and replayed for every kind of the class; NativeRT.tla never inspects the kind except through IsStruct/IsList",
        "the generation pass uses the shape view (length, capacity, flags): contents follow the representative history and are compared at every step; "
        "the separate model-checking pass is exhaustive over contents",
        "nl_string.c: NativeStr.tla models one string (13 constructor calls, byte_at_safe, concat, substring, validate, utf8 length/char_at, to_cstr, reserve, shrink_to_fit, clone, free); "
        "nl_string_byte_at (unchecked by contract), nl_string_utf8_substring and lengths near SIZE_MAX are not modelled",
        "calls the C API cannot detect (gc_retain/gc_release through a dangling pointer, over-release of a reference the caller does not own, malloc failure) are outside the contract and are not generated",
        "out-of-contract calls: every 16th (quick) / 4th (thorough) history runs the call in a forked child that must die by SIGABRT or exit(1); the others intercept __assert_fail()/exit() in process",
        "generated-code half: hand-written corpus under corpus/c20, sanitizer = gcc ASan+UBSan at -O0; leaks are not checked (the transpiler frees almost nothing by design)",
    ]
    return "model_checking", cov, assumptions


def replay(ctx, path):
    art = json.load(open(path))
    if art.get("type") == "history":
        ctx.build("asan")
        probe = ctx.probe("rt_probe", "asan", libs=("-ldl",))
        f = os.path.join(ctx.scratch, "one.ndjson")
        rec = dict(art["record"])
        # replay only the kind that failed
        rec = json.loads(json.dumps(rec))
        if rec["family"] != "gc" and art.get("kind"):
            rec["h"][0]["e"]["kinds"] = [art["kind"]]
        open(f, "w").write(json.dumps(rec) + "\n")
        env = dict(os.environ)
        env.update(ctx.env({"ASAN_OPTIONS": "detect_leaks=0:abort_on_error=1:symbolize=1", "RT_PROBE_FORK_EVERY": "1"}))
        rep = f + ".rep"
        p = subprocess.run([probe, f, rep], env=env)
        print("history (%s, kind %s):" % (rec["family"], art.get("kind")))
        for s in rec["h"]:
            print("   ", json.dumps(s["e"]), "->", json.dumps(s["s"]))
        text = open(rep).read() if os.path.exists(rep) else ""
        print(text)
        bad = p.returncode != 0 or '"fail":1' in text
        print("VIOLATION property=C20 replay=%s" % path if bad else "replay: the history now matches the spec")
        return 1 if bad else 0
    if art.get("type") == "program":
        tree = ctx.build("plain", nanoc=True)
        src = os.path.join(ctx.scratch, art["name"] + ".nano")
        open(src, "w").write(art["source"])
        r = run_program(ctx, tree, src, None)
        print(r.get("stderr", "")[-4000:])
        bad = r["status"] == "sanitizer"
        print("VIOLATION property=C20 replay=%s" % path if bad else "replay: status %s" % r["status"])
        return 1 if bad else 0
    raise InfraError("unknown replay artifact " + path)
