"""C17 - daemon execution is transparent and concurrent clients are isolated.

Model:   spec/Vmd.tla, three well-formed clients x modules with distinguishable output x every interleaving
         (accept loop, thread per client, stdio buffering, bounded socket buffers): Isolation, Transparency,
         ActiveOK, availability; liveness (everyone is served) in Vmd_c17_live; the lazily initialised CRC table
         as explicit steps: Vmd_crc_lazy exhibits the unsynchronised first use (NoCrcRace violated, expected),
         Vmd_crc_eager (table initialised before the accept loop) has none.
Replay:  scenarios (module multisets x arrival schedules) emitted by TLC -> standins/vmd_clients against a private
         nano_vmd (H4 directory): through the real `nano_vm --daemon` and through raw sockets, concurrently, with
         seeded jitter and seeded yields inside the daemon; every client's (stdout, error text, exit status) must
         equal that of `nano_vm x.nvm` on the same module.  The same under the ThreadSanitizer build of the
         daemon: any data-race report is a violation (the property says so).  Lazy daemon launch is replayed too.
Traces:  H4 session events -> spec/VmdTrace.tla (see vmd_trace.py).
"""
import json
import os
import random
import threading
import time

from lib.common import InfraError, findings_for, log, sha, tlc
from props import vmd_lib as L
from props.vmd_lib import V

TEMPLATES = sorted({t for ts in L.SHAPES.values() for t in ts})


def model(ctx, quick, out):
    """model checking of the design; runs in a thread next to the builds"""
    try:
        main = tlc(ctx, "Vmd", "Vmd_c17" if quick else "Vmd_c17_full", timeout=3000)
        if main.violated:
            raise InfraError("Vmd (C17 configuration) violates %s:\n%s" % (main.violated, "\n".join(main.trace[-2:])[-3000:]))
        lazy = tlc(ctx, "Vmd", "Vmd_crc_lazy", workers=2, timeout=600)
        eager = tlc(ctx, "Vmd", "Vmd_crc_eager", workers=2, timeout=600)
        noflush = tlc(ctx, "Vmd", "Vmd_c17_noflush", workers=2, timeout=600)
        if noflush.violated != "Transparency":
            raise InfraError("Vmd_c17_noflush (flush only on the success path) no longer violates Transparency (got %r)" % noflush.violated)
        if lazy.violated != "NoCrcRace":
            raise InfraError("Vmd_crc_lazy no longer exhibits the first-use race (got %r)" % lazy.violated)
        if eager.violated:
            raise InfraError("Vmd_crc_eager violates %s" % eager.violated)
        live = None
        if not quick:
            live = tlc(ctx, "Vmd", "Vmd_c17_live", timeout=3000)
            if live.violated:
                raise InfraError("Vmd_c17_live violates %s" % live.violated)
        out.update(main=main, lazy=lazy, eager=eager, live=live, noflush=noflush)
    except Exception as e:
        out["error"] = e


def judge_round(ctx, flat, obs, findings, what, replay_spec, stats):
    """compare every well-formed client with its standalone run"""
    bad = 0
    for cl, o in zip(flat, obs):
        if cl["kind"] != "exec":
            continue
        stats["clients"] += 1
        stats["daemon_diag_lines"] = stats.get("daemon_diag_lines", 0) + L.client_stderr(o)[1]
        stats["cases"].add((cl["template"], cl["via"], len(flat)))
        if o.get("reply") == "driver_error":
            raise InfraError("client driver failed: %s" % o.get("error"))
        diffs = L.compare_exec(o, cl["std"])
        if not diffs:
            continue
        only_exit = all(d.startswith("exit status differs") for d in diffs)
        f = None
        if only_exit:
            f = L.match_finding(findings, defect="exit_status_dropped", standalone_exit_not_0_1=cl["std"]["exit"] not in (0, 1),
                                daemon_exit=o["exit"])
        if f:
            ctx.known(f["id"], "module %s: standalone exits %d, through the daemon %r" % (cl["template"], cl["std"]["exit"], o["exit"]))
            stats["known"] += 1
            continue
        bad += 1
        if stats["violations"] < 3:
            rp = dict(replay_spec, what=what, failing_client=cl["id"], diffs=diffs, clients=L.describe(flat, obs))
            path = ctx.save_replay("round_%s.json" % sha(json.dumps(rp, sort_keys=True, default=str)), json.dumps(rp, indent=1, default=str))
            ctx.violation("%s: client %d (%s via %s, %d concurrent): %s" % (what, cl["id"], cl["template"], cl["via"], len(flat), "; ".join(diffs)[:600]), path)
        stats["violations"] += 1
    return bad


def health_or_violation(ctx, dm, what, replay_spec, findings, stats, hostile=False):
    h = dm.health()
    if h["alive"] and h["ping"]:
        return True
    rp = dict(replay_spec, what=what, health=h, daemon_stderr=dm.stderr_text()[-3000:])
    path = ctx.save_replay("daemon_%s.json" % sha(json.dumps(rp, sort_keys=True, default=str)), json.dumps(rp, indent=1, default=str))
    ctx.violation("%s: daemon gone or not answering PING afterwards (%s)" % (what, h), path)
    stats["violations"] += 1
    return False


def make_groups(bench, scens, rng, idbase, cli_share=0.5):
    groups = []
    for s in scens:
        groups.append(L.concretize(bench, s, rng, idbase, cli_share=cli_share))
        idbase += len(s["kinds"])
    return groups


def replay_rounds(ctx, bench, variant, rounds, findings, stats, yield_seed, tag, trace=None, fresh_each=False, sync=False):
    """rounds: list of dict(scens=[...], seed=int).  One daemon for all rounds unless fresh_each."""
    work = ctx.dir("w_" + tag)
    sdir = os.path.join(ctx.scratch, "s" + tag[:6])
    logs = []
    dm = None
    try:
        for i, rd in enumerate(rounds):
            if stats["violations"] >= 8:
                log("%s: stopping after %d violations" % (tag, stats["violations"]))
                break
            if dm is None or fresh_each:
                if dm is not None:
                    dm.stop()
                    logs.append(dm.stderr_text())
                dm = V.Daemon(bench.vmd(variant), sdir, bench.P, trace=trace, yield_seed=yield_seed,
                              env=ctx.env({"TSAN_OPTIONS": "halt_on_error=0:exitcode=0:history_size=7"}),
                              log=os.path.join(work, "daemon.%d.err" % i))
            rng = random.Random(rd["seed"])
            if rd.get("sweep"):
                groups = [L.sweep_clients(bench, rng)]
            else:
                groups = make_groups(bench, rd["scens"], rng, 1, cli_share=0.0 if sync else 0.5)
            flat, obs = L.play_round(bench, dm, groups, rng, work, sync_payload=sync)
            spec = dict(prop="C17", kind="round", variant=variant, yield_seed=yield_seed, round=rd, sync=sync, fresh=fresh_each)
            stats["rounds"] += 1
            bad = judge_round(ctx, flat, obs, findings, "%s round %d" % (tag, i), spec, stats)
            if bad or i == len(rounds) - 1 or fresh_each:
                if not health_or_violation(ctx, dm, "%s round %d" % (tag, i), spec, findings, stats):
                    dm.stop()
                    logs.append(dm.stderr_text())
                    dm = None
            if i < 3 and not stats["samples_full"]:
                stats["samples"].append(dict(tag=tag, clients=L.describe(flat, obs)))
        if dm is not None:
            n = dm.wait_idle(60)
            if n != 1:
                spec = dict(prop="C17", kind="idle", variant=variant)
                path = ctx.save_replay("idle_%s.json" % tag, json.dumps(dict(spec, active=n, stderr=dm.stderr_text()[-2000:]), indent=1))
                ctx.violation("%s: after all clients had finished the daemon reports active_clients=%r (expected 1: the asking session)" % (tag, n), path)
                stats["violations"] += 1
    finally:
        if dm is not None:
            dm.stop()
            logs.append(dm.stderr_text())
        V.kill_private_daemons(sdir)
    return "\n".join(logs)


def lazy_launch(ctx, bench, findings, stats, k, seed, attempt=0):
    """no daemon is running: k `nano_vm --daemon` clients start at once and launch it themselves"""
    work = ctx.dir("w_lazy%d" % attempt)
    sdir = os.path.join(ctx.scratch, "slazy%d" % attempt)
    dm = V.Daemon(bench.vmd("plain"), sdir, bench.P, start=False)
    try:
        rng = random.Random(seed)
        tpl = [rng.choice(["one", "many", "heap", "rtfail"]) for _ in range(k)]
        flat = []
        for i, t in enumerate(tpl):
            m = bench.module(t, 40 + i)
            flat.append(dict(id=40 + i, kind="exec", via="cli", template=t, path=m["path"], blob=m["blob"], std=m["std"], after=None))
        obs = V.play(dm, flat, rng, bench.nano_vm, work, jitter_ms=1.0)
        if attempt == 0 and any(b"Timeout waiting for daemon" in o.get("stderr", b"") for o in obs):
            # the client gives a freshly forked daemon 5 s (vmd_connect(5000)); on an overloaded machine that can
            # expire without any defect: one retry before it counts
            log("lazy launch: a client timed out waiting for the daemon; retrying once")
            V.kill_private_daemons(sdir)
            return lazy_launch(ctx, bench, findings, stats, k, seed, attempt=1)
        stats["rounds"] += 1
        spec = dict(prop="C17", kind="lazy", k=k, seed=seed)
        judge_round(ctx, flat, obs, findings, "lazy launch", spec, stats)
        stats["lazy_daemons"] = len(V.daemons_of_dir(sdir))
    finally:
        V.kill_private_daemons(sdir)


def triage_tsan(ctx, text, findings, stats, tag):
    reps = L.tsan_reports(text)
    stats["tsan_reports"] += len(reps)
    for r in reps:
        if "data race" not in r["kind"] and "race" not in r["kind"]:
            continue
        if r["hook_only"]:
            # both accesses are inside verification-hook code (nlv_* helpers of the single-threaded VM hooks that are
            # compiled into the daemon as well): an artefact of the instrumentation, not of the code under test
            stats["tsan_hook_artifacts"] = stats.get("tsan_hook_artifacts", 0) + 1
            continue
        site = set(r["funcs"][:12]) | set(r["globals"])
        f = L.match_finding(findings, defect="tsan_data_race", site=sorted(site))
        if f:
            ctx.known(f["id"], "ThreadSanitizer: %s in %s" % (r["kind"], ", ".join(sorted(site & set(f["match"]["site"])))))
            stats["known"] += 1
        else:
            path = ctx.save_replay("tsan_%s.txt" % sha(r["text"]), r["text"])
            ctx.violation("%s: ThreadSanitizer %s (%s)" % (tag, r["kind"], ", ".join(r["funcs"][:4])), path)
            stats["violations"] += 1


def pick_rounds(scens, rng, n_single, n_group, group):
    rounds = []
    pool = list(scens)
    rng.shuffle(pool)
    for s in pool[:n_single]:
        rounds.append(dict(scens=[s], seed=rng.getrandbits(31)))
    for _ in range(n_group):
        rounds.append(dict(scens=[rng.choice(scens) for _ in range(group)], seed=rng.getrandbits(31)))
    return rounds


def run(ctx):
    quick = ctx.tier == "quick"
    findings = findings_for("C17")
    mres = {}
    mt = threading.Thread(target=model, args=(ctx, quick, mres))
    mt.start()
    bench = L.Bench(ctx, ("plain", "tsan"))
    scens = L.scenarios_from(ctx, "Vmd_c17_gen")
    bench.wait()
    bench.preload(TEMPLATES, [1])
    bench.check_shapes()
    rng = random.Random(ctx.seed)
    stats = dict(clients=0, rounds=0, violations=0, known=0, cases=set(), samples=[], samples_full=False, tsan_reports=0)

    # ------------------------------------------------------------ replay, plain daemon with seeded yields
    if quick:
        rounds = pick_rounds(scens, rng, 36, 8, 3)          # 3 clients x 36, 9 clients x 8
    else:
        rounds = [dict(scens=[s], seed=rng.getrandbits(31)) for s in scens] + pick_rounds(scens, rng, 0, 24, 21)   # .. 63 clients
    bench.preload(TEMPLATES, range(1, (9 if quick else 63) + 1))
    # every corpus module (all shapes: no / one / many lines, big, partial last line with normal end and with a
    # run-time error, failing, non-zero exit) through both client kinds, in both stages and in the trace stage
    rounds = [dict(sweep=True, seed=rng.getrandbits(31))] + rounds + [dict(sweep=True, seed=rng.getrandbits(31))]
    half = len(rounds) // 2
    replay_rounds(ctx, bench, "plain", rounds[:half], findings, stats, yield_seed=ctx.seed * 7919 + 1, tag="plainA")
    replay_rounds(ctx, bench, "plain", rounds[half:], findings, stats, yield_seed=0, tag="plainB")
    lazy_launch(ctx, bench, findings, stats, k=4 if quick else 12, seed=ctx.seed)

    # ------------------------------------------------------------ the same under ThreadSanitizer (daemon only)
    # fresh daemons: the first use of process-wide state (CRC table ...) by several sessions at once
    first = [dict(scens=[s for s in scens if s["gaps"] == ["overlap", "overlap"] and "zero" not in s["mods"]][i::7][:2],
                  seed=rng.getrandbits(31)) for i in range(3 if quick else 10)]
    # sessions that fail at the same time (error path: errbuf, error frame, exit frame), parked on the payload barrier
    both_fail = [s for s in scens if s["mods"].count("fail") >= 2 and s["gaps"] == ["overlap", "overlap"]]
    first += [dict(scens=[both_fail[(ctx.seed + j) % len(both_fail)]], seed=rng.getrandbits(31)) for j in range(1 if quick else 4)]
    tlog = replay_rounds(ctx, bench, "tsan", first, findings, stats, yield_seed=0, tag="tsanF", fresh_each=True, sync=True)
    tlog += replay_rounds(ctx, bench, "tsan", pick_rounds(scens, rng, 6 if quick else 60, 2 if quick else 10, 3 if quick else 10),
                          findings, stats, yield_seed=ctx.seed + 17, tag="tsanR")
    triage_tsan(ctx, tlog, findings, stats, "tsan daemon")

    # ------------------------------------------------------------ trace validation
    traces = dict(validated=0, events=0, rejected=0)
    try:
        from props import vmd_trace
    except ImportError:
        vmd_trace = None
    if bench.traced and vmd_trace:
        trounds = [dict(sweep=True, seed=rng.getrandbits(31))] + pick_rounds(scens, rng, 10 if quick else 80, 2 if quick else 10, 3)
        vmd_trace.validate(ctx, bench, "C17", trounds, findings, stats, traces, yield_seed=ctx.seed + 3)
    else:
        ctx.assumptions.append("H4 session events not compiled into this tree: no trace validation")

    mt.join()
    if "error" in mres:
        raise mres["error"]
    main = mres["main"]
    cov = dict(
        states=main.distinct, transitions=main.generated,
        traces_validated_against_impl=traces["validated"], trace_events=traces["events"],
        trace_selftest=traces.get("selftest", []), traces_explained_with_switches=traces.get("with_switches", []),
        evaluations=stats["clients"], distinct_nontrivial=len(stats["cases"]),
        rule="one evaluation = one well-formed client session compared with the standalone run of its module; distinct = "
             "(corpus module, real client | raw socket, number of concurrent clients); scenarios (module multiset x arrival "
             "schedule) are the initial states of Vmd.tla/Vmd_c17_gen, concretised with client-unique modules",
        scenarios_generated=len(scens), rounds=stats["rounds"], lazy_launch_daemons=stats.get("lazy_daemons"),
        tsan_reports=stats["tsan_reports"], tsan_hook_artifacts=stats.get("tsan_hook_artifacts", 0), known_hits=stats["known"],
        daemon_diagnostics_on_client_stderr=stats.get("daemon_diag_lines", 0),
        model=dict(cfg=main.__dict__.get("cfg", "Vmd_c17" if quick else "Vmd_c17_full"), depth=main.depth,
                   crc_lazy=dict(violated=mres["lazy"].violated, states=mres["lazy"].distinct, trace_len=len(mres["lazy"].trace)),
                   crc_eager=dict(violated=mres["eager"].violated, states=mres["eager"].distinct),
                   flush_only_on_success=dict(violated=mres["noflush"].violated, states=mres["noflush"].distinct),
                   liveness=(dict(states=mres["live"].distinct, properties="GoodServed AllEnd") if mres.get("live") else "thorough tier only")),
        protocol_constants={k: v for k, v in bench.P.items() if k != "known_types"},
        samples=stats["samples"][:4],
        exhaustive=False)
    assumptions = [
        "the oracle for a client's observation is `nano_vm x.nvm` of the same tree (as the property states); error text is compared "
        "byte for byte for run-time errors, by class for load errors (they name the file)",
        "schedules: those the kernel produces under seeded client jitter and seeded yields/sleeps inside the daemon (H4), not all",
        "ThreadSanitizer observes the daemon only; the hook takes no lock when tracing is off",
        "modules with FFI imports are not in the corpus; the SHUTDOWN message is not sent",
    ]
    return "model_checking", cov, assumptions


def replay(ctx, path):
    if path.endswith(".ndjson"):
        from props import vmd_trace
        return vmd_trace.replay_trace(ctx, L.Bench(ctx, ("plain",)).wait(), path)
    rp = json.load(open(path)) if path.endswith(".json") else None
    if rp is None:
        print(open(path).read())
        return 1
    findings = findings_for("C17")
    variant = rp.get("variant", "plain")
    bench = L.Bench(ctx, ("plain",) if variant == "plain" else ("plain", variant)).wait()
    stats = dict(clients=0, rounds=0, violations=0, known=0, cases=set(), samples=[], samples_full=True, tsan_reports=0)
    if rp.get("kind") == "lazy":
        for i in range(10):
            lazy_launch(ctx, bench, findings, stats, rp["k"], rp["seed"] + i)
    else:
        rd = rp["round"]
        text = replay_rounds(ctx, bench, variant, [rd] * 20, findings, stats, rp.get("yield_seed", 0), "replay",
                             fresh_each=rp.get("fresh", False), sync=rp.get("sync", False))
        if variant == "tsan":
            triage_tsan(ctx, text, findings, stats, "replay")
    log("replayed %d rounds: %d violations" % (stats["rounds"], stats["violations"]))
    return 1 if ctx.violations else 0
