"""C19 -- compilation is a function of the source: reproducible outputs.

spec/DriverEnv.tla fixes the configuration space (cwd, TMPDIR, unrelated environment, ASLR,
MALLOC_PERTURB_, relative/absolute addressing, repeated runs), the environment actions (each
leaves `artifact` unchanged) and the acceptance rule.  TLC model-checks the configuration lattice
and generates covering walks (every pair of values of every two dimensions is visited; <= 6
environment steps per walk).  This module executes every walk for every program with
    nano_virt --emit-nvm   (sha256 of the .nvm file)
    nanoc_c -S             (sha256 of <input>.genC; NANO_CC=/bin/true, no C compile)
and, for ill-formed programs, the diagnostics of both tools (paths normalised), and hands the
recorded (action, configuration, sha) sequence to spec/DriverEnvTrace.tla, which replays it through
the DriverEnv actions: a step whose sha differs from the artifact is not a step of the spec.

The same source FILES are compiled in every configuration (one copy per program); the working
directory changes around them (their own directory, a subdirectory of it, an unrelated directory),
so the path under which they are addressed necessarily changes with cwd and `inv`.
"""
import difflib
import glob
import hashlib
import json
import os
import platform
import re
import shutil
import subprocess

from lib.common import (VERIF, InfraError, log, sh, tlc, findings_for, parallel_map, NCPU)

CORPUS = os.path.join(VERIF, "corpus", "c19")
CORPUS20 = os.path.join(VERIF, "corpus", "c20")
TOOLS = ("nvm", "genC")
DIAG_TOOLS = ("diag_virt", "diag_nanoc")


MODPATH_LINE = re.compile(r'^\s*(/\* Module: .*\(path: .*\*/|return ".*\.nano";)\s*$')


def sha256(b):
    return hashlib.sha256(b).hexdigest()


def setarch_works():
    try:
        p = subprocess.run(["setarch", platform.machine(), "-R", "/bin/true"], stdout=subprocess.PIPE, stderr=subprocess.PIPE, timeout=20)
        return p.returncode == 0
    except (OSError, subprocess.TimeoutExpired):
        return False


# ----------------------------------------------------------------------------- programs
def load_programs(tier):
    """[(name, main file, [all files], ill_formed)]"""
    progs = []
    for d in sorted(glob.glob(os.path.join(CORPUS, "*", "main.nano"))):
        dd = os.path.dirname(d)
        progs.append((os.path.basename(dd), "main.nano", sorted(glob.glob(os.path.join(dd, "*.nano"))), False))
    for f in sorted(glob.glob(os.path.join(CORPUS, "*.nano"))):
        progs.append((os.path.basename(f)[:-5], os.path.basename(f), [f], False))
    c20 = sorted(glob.glob(os.path.join(CORPUS20, "*.nano")))
    for f in c20:
        progs.append(("c20_" + os.path.basename(f)[:-5], os.path.basename(f), [f], False))
    bad = [(("bad_" + os.path.basename(f)[:-5]), os.path.basename(f), [f], True)
           for f in sorted(glob.glob(os.path.join(CORPUS, "bad", "*.nano")))]
    return progs, bad


# ----------------------------------------------------------------------------- one observation
class Runner:
    def __init__(self, ctx, tree, aslr_ok):
        self.ctx, self.tree, self.aslr_ok = ctx, tree, aslr_ok
        self.root = ctx.dir("c19")
        self.tmps = {"t1": os.path.join(self.root, "tmpA"), "t2": os.path.join(self.root, "other", "deeper", "tmp-B")}
        for t in self.tmps.values():
            os.makedirs(t, exist_ok=True)
        self.arch = platform.machine()

    def prepare(self, prog):
        name, main, files, _ = prog
        w = os.path.join(self.root, "w." + name)
        shutil.rmtree(w, ignore_errors=True)
        os.makedirs(os.path.join(w, "p", "sub"))
        os.makedirs(os.path.join(w, "far"))
        os.makedirs(os.path.join(w, "out"))
        for f in files:
            shutil.copy(f, os.path.join(w, "p"))
        return w

    def command(self, w, main, cfg, tool, outfile):
        cwd = {"src": os.path.join(w, "p"), "sub": os.path.join(w, "p", "sub"), "far": os.path.join(w, "far")}[cfg["cwd"]]
        src_abs = os.path.join(w, "p", main)
        virt = os.path.join(self.tree, "bin", "nano_virt")
        nanoc = os.path.join(self.tree, "bin", "nanoc_c")
        if cfg["inv"] == "rel":
            src = os.path.relpath(src_abs, cwd)
            virt, nanoc = os.path.relpath(virt, cwd), os.path.relpath(nanoc, cwd)
        else:
            src = src_abs
        if tool in ("nvm", "diag_virt"):
            cmd = [virt, src, "--emit-nvm", "-o", outfile]
        else:
            cmd = [nanoc, src, "-S", "-o", outfile + ".exe"]
        if cfg["aslr"] == "off":
            cmd = ["setarch", self.arch, "-R"] + cmd
        env = {k: v for k, v in os.environ.items() if k not in ("MALLOC_PERTURB_",)}
        env.update({"TMPDIR": self.tmps[cfg["tmp"]], "NANO_CC": "/bin/true"})
        if cfg["perturb"] != "0":
            env["MALLOC_PERTURB_"] = cfg["perturb"]
        if cfg["env"] == "extra":
            env.update({"VERIF_NOISE": "x" * 3000 + str(cfg["rep"]), "COLUMNS": "37", "TZ": "Pacific/Kiritimati",
                        "LANG": "C.UTF-8", "USER": "nobody-%s" % cfg["tmp"], "XDG_CACHE_HOME": "/nonexistent/cache",
                        "LC_COLLATE": "C", "EDITOR": "ed"})
        return cmd, cwd, env, src

    def normalise(self, text, w, src, cfg):
        """diagnostics with paths normalised: the spelled source path, the work dir, TMPDIR; the
        banner lines pad the file name with dashes to a fixed width, so dash runs are collapsed"""
        t = text
        for a, b in ((src, "<SRC>"), (os.path.join(w, "p") + "/", "<P>/"), (w, "<W>"), (self.tmps[cfg["tmp"]], "<TMP>"),
                     (self.tree, "<TREE>")):
            t = t.replace(a, b)
        base = os.path.basename(src)
        t = re.sub(r"(?<![\w/<>.])((\.\./)*|\./)" + re.escape(base), "<SRC>", t)
        t = re.sub(r"-{3,}", "---", t)
        return t

    def observe(self, w, prog, cfg, tool, idx):
        name, main, files, bad = prog
        out = os.path.join(w, "out", "%s.%d" % (tool, idx))
        cmd, cwd, env, src = self.command(w, main, cfg, tool, out)
        genc = os.path.join(w, "p", main + ".genC")
        if os.path.exists(genc):
            os.remove(genc)
        try:
            p = subprocess.run(cmd, cwd=cwd, env=env, stdout=subprocess.PIPE, stderr=subprocess.PIPE, timeout=120)
        except subprocess.TimeoutExpired:
            # a compiler that does not terminate is C09's business; here the program is dropped
            return None, "%s did not terminate within 120 s" % tool
        if tool in DIAG_TOOLS:
            text = "rc=%d\n--stdout--\n%s--stderr--\n%s" % (p.returncode, p.stdout.decode(errors="replace"), p.stderr.decode(errors="replace"))
            data = self.normalise(text, w, src, cfg).encode()
        elif tool == "nvm":
            if p.returncode != 0 or not os.path.exists(out):
                return None, ("nano_virt --emit-nvm failed rc=%d: %s" % (p.returncode, p.stderr.decode(errors="replace")[-300:]))
            data = open(out, "rb").read()
        else:
            if not os.path.exists(genc):
                return None, ("nanoc_c -S wrote no .genC (rc=%d): %s" % (p.returncode, (p.stdout + p.stderr).decode(errors="replace")[-300:]))
            data = open(genc, "rb").read()
        h = sha256(data)
        keep = os.path.join(w, "out", "%s.%s" % (tool, h[:16]))
        if not os.path.exists(keep):
            with open(keep, "wb") as f:
                f.write(data)
        if tool == "genC":
            # second digest with the module-path lines masked: used only to keep watching a segment
            # that is rejected because of the known finding F-genc-embeds-module-path
            masked = b"\n".join(b"<module path line>" if MODPATH_LINE.match(l.decode(errors="replace")) else l
                                for l in data.split(b"\n"))
            return (h, sha256(masked)), None
        return h, None


# ----------------------------------------------------------------------------- walks -> events
def execute_program(runner, prog, walks):
    """returns {tool: [events]}, dropped-reason or None, workdir"""
    w = runner.prepare(prog)
    tools = DIAG_TOOLS if prog[3] else TOOLS
    segs = {}
    for tool in tools:
        evs = [dict(e="Reset", prog=prog[0], tool=tool)]
        idx = 0
        for wk in walks:
            for s in wk["steps"]:
                h, err = runner.observe(w, prog, s["cfg"], tool, idx)
                idx += 1
                if err:
                    return None, "%s: %s" % (tool, err), w
                ev = dict(e="obs", act=s["act"], v=s["v"], cfg=s["cfg"], sha=h)
                if isinstance(h, tuple):
                    ev["sha"], ev["sha_masked"] = h
                evs.append(ev)
        segs[tool] = evs
    return segs, None, w


def validate(ctx, segments, cfgname):
    """segments: list of (key, events).  Runs DriverEnvTrace over the concatenation; on a rejection
    the offending segment is re-validated alone (rule 3 of the README), recorded, and validation
    continues behind it.  Returns list of (key, index of the first event the spec refuses)."""
    rejected = []
    start = 0
    runs = 0
    while start < len(segments):
        f = os.path.join(ctx.scratch, "c19.trace.%d.ndjson" % runs)
        offs = []
        with open(f, "w") as o:
            n = 0
            for key, evs in segments[start:]:
                offs.append(n)
                for e in evs:
                    o.write(json.dumps(e) + "\n")
                n += len(evs)
        r = tlc(ctx, "DriverEnvTrace", cfg=cfgname, workers=1, env={"TRACE": f}, timeout=900)
        runs += 1
        if r.violated == "NotAccepted":
            break                      # the whole remainder is a behaviour of the spec
        if r.violated:
            raise InfraError("DriverEnvTrace: unexpected %s\n%s" % (r.violated, r.out[-1500:]))
        consumed = max(0, r.distinct - 1)
        k = max(j for j, o_ in enumerate(offs) if o_ <= consumed)
        key, evs = segments[start + k]
        # confirm on the segment alone
        f1 = os.path.join(ctx.scratch, "c19.trace.one.%d.ndjson" % runs)
        with open(f1, "w") as o:
            for e in evs:
                o.write(json.dumps(e) + "\n")
        r1 = tlc(ctx, "DriverEnvTrace", cfg=cfgname, workers=1, env={"TRACE": f1}, timeout=900)
        runs += 1
        if r1.violated == "NotAccepted":
            raise InfraError("DriverEnvTrace rejected segment %s inside the concatenation but accepts it alone" % (key,))
        rejected.append((key, max(0, r1.distinct - 1)))
        start = start + k + 1
        if runs > 80:
            raise InfraError("C19: more than 40 rejected segments")
    return rejected, runs


def explain_genc_diff(a, b):
    """the differing lines of two generated C files"""
    la, lb = a.decode(errors="replace").splitlines(), b.decode(errors="replace").splitlines()
    diff = [l for l in difflib.unified_diff(la, lb, lineterm="", n=0) if l[:1] in "+-" and l[:3] not in ("+++", "---")]
    return diff


def run(ctx):
    cov, assumptions = {}, []
    findings = findings_for("C19")
    tree = ctx.build("plain", nanoc=True)
    aslr_ok = setarch_works()
    gen_cfg, tr_cfg = ("DriverEnvGen", "DriverEnvTrace") if aslr_ok else ("DriverEnvGen_noaslr", "DriverEnvTrace_noaslr")
    if not aslr_ok:
        assumptions.append("`setarch -R` does not work in this sandbox: the ASLR dimension is dropped (address space layout still varies run to run)")

    # --- model checking of the lattice + covering walks (several tie-breaking seeds in the thorough tier)
    seeds = [ctx.seed] if ctx.tier == "quick" else [ctx.seed + k for k in range(4)]
    walks, states, transitions, pairs = [], 0, 0, 0
    seen = set()
    for sd in seeds:
        r = tlc(ctx, "DriverEnvGen", cfg=gen_cfg, workers=4, constants={"Start": sd % 1000})
        if r.violated or "No error has been found" not in r.out:
            raise InfraError("DriverEnvGen: %s\n%s" % (r.violated, r.out[-2000:]))
        states, transitions = max(states, r.distinct), max(transitions, r.generated)
        for rec in r.records:
            if "steps" in rec:
                k = json.dumps(rec["steps"], sort_keys=True)
                if k not in seen:
                    seen.add(k)
                    walks.append(rec)
            elif "pairs" in rec:
                pairs = rec["pairs"]
    if not walks:
        raise InfraError("DriverEnvGen printed no walks")
    nsteps = sum(len(w["steps"]) for w in walks)
    configs = {json.dumps(s["cfg"], sort_keys=True) for w in walks for s in w["steps"]}

    progs, bad = load_programs(ctx.tier)
    runner = Runner(ctx, tree, aslr_ok)
    results = parallel_map(lambda p: (p, execute_program(runner, p, walks)), progs + bad)

    segments, dropped, workdirs = [], [], {}
    for p, (segs, why, w) in results:
        workdirs[p[0]] = w
        if segs is None:
            dropped.append(dict(prog=p[0], why=why[:300]))
            log("C19: dropped %s: %s" % (p[0], why[:200]))
            continue
        for tool, evs in segs.items():
            segments.append(((p[0], tool), evs))
    if len(dropped) > len(progs + bad) // 3:
        raise InfraError("C19: too many programs could not be compiled at all: %s" % dropped[:5])

    rejected, tlc_runs = validate(ctx, segments, tr_cfg)

    segmap = dict(segments)
    masked_segments = []
    for (pname, tool), at in rejected:
        evs = segmap[(pname, tool)]
        w = workdirs[pname]
        first = evs[1]
        badev = evs[at] if at < len(evs) else evs[-1]
        a = open(os.path.join(w, "out", "%s.%s" % (tool, first["sha"][:16])), "rb").read()
        b = open(os.path.join(w, "out", "%s.%s" % (tool, badev["sha"][:16])), "rb").read()
        diff = explain_genc_diff(a, b) if tool != "nvm" else ["(binary) first differing offset %d, sizes %d/%d" % (
            next((i for i, (x, y) in enumerate(zip(a, b)) if x != y), min(len(a), len(b))), len(a), len(b))]
        known = None
        for k in findings:
            m = k.get("match", {})
            if m.get("tool") == tool and m.get("diff_lines") == "module_path" and tool == "genC" and diff \
                    and all(MODPATH_LINE.match(l[1:]) for l in diff) \
                    and first["cfg"] != badev["cfg"] \
                    and (first["cfg"]["cwd"], first["cfg"]["inv"]) != (badev["cfg"]["cwd"], badev["cfg"]["inv"]):
                known = k
        if known:
            ctx.known(known["id"], "%s: %s, configuration %s vs %s: %s" % (
                known.get("summary", ""), pname, json.dumps(first["cfg"]), json.dumps(badev["cfg"]), "; ".join(diff[:2])[:300]))
            cov.setdefault("known_segments", []).append([pname, tool])
            masked_segments.append(((pname, "genC(module path lines masked)"),
                                    [dict(e, sha=e["sha_masked"]) if e.get("e") == "obs" else e for e in evs]))
            continue
        art = dict(type="c19", prog=pname, tool=tool, events=evs, refused_event=at, first=first, refused=badev, diff=diff[:60])
        path = ctx.save_replay("c19-%s-%s.json" % (pname, tool), json.dumps(art, indent=1))
        ctx.violation("%s of %s is not a function of the source: configuration %s gives %s, %s gives %s; %s" % (
            tool, pname, json.dumps(first["cfg"]), first["sha"][:12], json.dumps(badev["cfg"]), badev["sha"][:12],
            " | ".join(diff[:3])[:400]), path)

    # segments explained by the known finding stay under watch with the module-path lines masked
    if masked_segments:
        rej2, n2 = validate(ctx, masked_segments, tr_cfg)
        tlc_runs += n2
        for (pname, tool), at in rej2:
            evs = dict(masked_segments)[(pname, tool)]
            art = dict(type="c19", prog=pname, tool=tool, events=evs, refused_event=at, first=evs[1], refused=evs[min(at, len(evs) - 1)], diff=[])
            path = ctx.save_replay("c19-%s-genC-masked.json" % pname, json.dumps(art, indent=1))
            ctx.violation("generated C of %s differs across configurations beyond the module-path lines of F-genc-embeds-module-path" % pname, path)

    # binding self-test (thorough): a corrupted copy of an accepted segment must be refused
    if ctx.tier == "thorough":
        bad_keys = {k for k, _ in rejected}
        good = next((evs for k, evs in segments if k not in bad_keys and len(evs) > 6), None)
        if good:
            for what, mutate in (("sha of one observation changed", lambda e: dict(e, sha="0" * 64)),
                                 ("two dimensions changed in one step", lambda e: dict(e, cfg=dict(e["cfg"], tmp="t2" if e["cfg"]["tmp"] == "t1" else "t1",
                                                                                                  env="extra" if e["cfg"]["env"] == "none" else "none")))):
                evs = [dict(e) for e in good]
                evs[4] = mutate(evs[4])
                f = os.path.join(ctx.scratch, "c19.selftest.ndjson")
                with open(f, "w") as o:
                    for e in evs:
                        o.write(json.dumps(e) + "\n")
                r = tlc(ctx, "DriverEnvTrace", cfg=tr_cfg, workers=1, env={"TRACE": f}, timeout=600)
                tlc_runs += 1
                if r.violated == "NotAccepted":
                    raise InfraError("C19 binding self-test: DriverEnvTrace accepted a trace with %s" % what)
                cov.setdefault("binding_selftests", []).append(dict(corruption=what, refused_at_event=max(0, r.distinct - 1)))

    nobs = sum(len(e) - 1 for _, e in segments)
    # non-trivial: an observation that is compared with the artifact of its segment (everything but
    # the first observation of each segment), counted once per (program, tool, configuration)
    distinct = len({(k[0], k[1], json.dumps(e["cfg"], sort_keys=True)) for k, evs in segments for e in evs[2:]})
    cov.update(
        evaluations=nobs, distinct_nontrivial=distinct,
        rule="one observation = one tool run for one program in one configuration of a covering walk; distinct by (program, tool, configuration); "
             "non-trivial = compared with the artifact fixed by the first observation of its segment (a different configuration, or a repeat: new pid, later time)",
        samples=[dict(walk=walks[0]["walk"], steps=[dict(act=s["act"], v=s["v"], cfg=s["cfg"]) for s in walks[0]["steps"]]),
                 dict(segment=list(segments[0][0]), events=segments[0][1][:4])],
        walks=len(walks), walk_steps=nsteps, configurations=len(configs), value_pairs_covered=pairs,
        lattice_states=states, lattice_transitions=transitions,
        programs=len(progs), multi_module=[p[0] for p in progs if len(p[2]) > 1], ill_formed=len(bad),
        segments=len(segments), segments_rejected=[[k[0], k[1], at] for k, at in rejected],
        programs_dropped=dropped, trace_tlc_runs=tlc_runs, aslr_dimension=aslr_ok)
    assumptions += [
        "the TLA+ part contributes the configuration space, the covering walks and the acceptance rule; whether the bytes depend on uninitialised memory or pointer values is observed on the runs, not modelled",
        "one copy of the source files per program; the working directory moves around them (own directory, subdirectory, unrelated directory) and the files are addressed by relative or absolute path accordingly",
        "unrelated environment = VERIF_NOISE (3 kB), COLUMNS, TZ, LANG, USER, XDG_CACHE_HOME, LC_COLLATE, EDITOR; HOME, CC, NANO_* are left alone because the driver documents them as inputs",
        "diagnostics: the spelled source path, work directory, TMPDIR and tree path are replaced by tokens and dash runs are collapsed (banner lines pad the file name to a fixed width)",
        "nanoc_c runs with NANO_CC=/bin/true: the generated C is final before the C compiler is called",
    ]
    return "exploration", cov, assumptions


def replay(ctx, path):
    art = json.load(open(path))
    print("program %s, tool %s" % (art["prog"], art["tool"]))
    print("first observation :", json.dumps(art["first"]))
    print("refused observation:", json.dumps(art["refused"]))
    print("\n".join(art.get("diff", [])[:40]))
    f = os.path.join(ctx.scratch, "one.ndjson")
    with open(f, "w") as o:
        for e in art["events"]:
            o.write(json.dumps(e) + "\n")
    has_aslr = any(e.get("cfg", {}).get("aslr") == "off" for e in art["events"])
    r = tlc(ctx, "DriverEnvTrace", cfg="DriverEnvTrace" if has_aslr or True else "DriverEnvTrace_noaslr", workers=1, env={"TRACE": f})
    bad = r.violated != "NotAccepted"
    print("VIOLATION property=C19 replay=%s" % path if bad else "replay: trace accepted")
    return 1 if bad else 0
