"""Trace validation for C17/C18: H4 session events of the real daemon -> spec/VmdTrace.tla.

Python only records, renumbers sessions per round, hex-encodes the standalone observations (module table) and
runs TLC; acceptance is decided by TLC (deadlock = no action of Vmd.tla explains the next event; invariants are
evaluated in every replayed state).
"""
import json
import os
import random
import re

from lib.common import InfraError, SPEC, log, sha, tlc
from props import vmd_lib as L
from props.vmd_lib import V


def fnv30(b):
    h = 2166136261
    for x in b:
        h = ((h ^ x) * 16777619) & 0xFFFFFFFF
    return h & 0x3FFFFFFF


def mod_entry(cl):
    std = cl["std"]
    if cl.get("template", "").startswith("hostile:") or b"verification failed" in std["stderr"]:
        cls = "hostile"
    elif b"invalid .nvm format" in std["stderr"] or b"Failed to load" in std["stderr"]:
        cls = "junk"
    else:
        cls = "good"
    err = std["stderr"][:-1] if std["stderr"].endswith(b"\n") else std["stderr"]
    return dict(h=fnv30(cl["blob"]), cls=cls, out=std["stdout"].hex() if cls == "good" else "",
                err=err.hex() if cls == "good" else "", exit=std["exit"] if cls == "good" else 0)


def record(ctx, bench, rounds, tag, yield_seed, cli_share=0.5):
    """play the rounds against traced daemons; returns (list of event lists - one per daemon, module table, n_hostile)"""
    work = ctx.dir("w_" + tag)
    sdir = os.path.join(ctx.scratch, "s" + tag[:6])
    files, mods = [], {}
    shared = None
    k = [0]
    idle_ok = [True]

    def new_daemon(own):
        k[0] += 1
        tf = os.path.join(work, "trace.%d.ndjson" % k[0])
        files.append((tf, own))
        return V.Daemon(bench.vmd("plain"), sdir + ("h" if own else ""), bench.P, trace=tf, yield_seed=yield_seed,
                        env=ctx.env(), log=os.path.join(work, "daemon.%d.err" % k[0]))
    try:
        for rd in rounds:
            hostile = any(kd == "hostile" for s in rd.get("scens", []) for kd in s["kinds"])
            dm = new_daemon(True) if hostile else (shared or new_daemon(False))
            if not hostile:
                shared = dm
            try:
                rng = random.Random(rd["seed"])
                if rd.get("sweep"):
                    groups = [[cl for cl in L.sweep_clients(bench, rng) if cl["template"] != L.BIG]]
                else:
                    groups = [L.concretize(bench, s, rng, 1 + 3 * j, hostile_variant=rd.get("hostile_variant"), cli_share=cli_share,
                                           big=rd.get("big", False))
                              for j, s in enumerate(rd["scens"])]
                flat, obs = L.play_round(bench, dm, groups, rng, work)
                for cl in flat:
                    e = mod_entry(cl)
                    mods[e["h"]] = e
                if dm.health()["alive"]:
                    if idle_ok[0] and dm.wait_idle(30) != 1:
                        idle_ok[0] = False        # bookkeeping is off (reported by the replay stage): do not wait again
                elif not hostile:
                    shared = None
            finally:
                if hostile:
                    dm.stop()
    finally:
        if shared is not None:
            shared.stop()
        V.kill_private_daemons(sdir)
        V.kill_private_daemons(sdir + "h")
    out = []
    for tf, own in files:
        evs = []
        if os.path.exists(tf):
            for line in open(tf):
                try:
                    evs.append(json.loads(line))
                except ValueError:
                    pass                      # torn last line of a daemon that died
        out.append((evs, own))
    return out, list(mods.values())


def segment(evs, min_sessions=6):
    """cut one daemon's event list at quiescent points (no session between accept and cleanup); renumber sessions"""
    segs, cur, open_s, seen = [], [], set(), []
    for e in evs:
        cur.append(e)
        if e["e"] == "accept":
            open_s.add(e["s"])
            seen.append(e["s"])
        elif e["e"] == "cleanup":
            open_s.discard(e["s"])
            if not open_s and len(seen) >= min_sessions:
                segs.append(cur)
                cur, seen = [], []
    if cur:
        segs.append(cur)
    res = []
    for sg in segs:
        ren = {}
        o = []
        for e in sg:
            if e["s"] not in ren:
                ren[e["s"]] = len(ren) + 1
            e = dict(e, s=ren[e["s"]])
            if e["e"] == "status_sent":
                m = re.match(r"active_clients=(\d+)", bytes.fromhex(e.get("hex", "")).decode(errors="replace"))
                e["n"] = int(m.group(1)) if m else -1
            o.append(e)
        res.append((o, len(ren)))
    return res


def write_inputs(ctx, name, segs, mods):
    d = ctx.dir("tr_" + name)
    tp, mp = os.path.join(d, "trace.ndjson"), os.path.join(d, "mods.ndjson")
    n = 1
    with open(tp, "w") as f:
        for j, (evs, k) in enumerate(segs):
            if j:
                f.write('{"e":"Reset","s":0}\n')
            for e in evs:
                f.write(json.dumps(e, separators=(",", ":")) + "\n")
            n = max(n, k)
    with open(mp, "w") as f:
        for m in mods or [dict(h=0, cls="junk", out="", err="", exit=0)]:
            f.write(json.dumps(m, separators=(",", ":")) + "\n")
    return tp, mp, max(n, 2)


def run_tlc(ctx, bench, tp, mp, n, verify=True, dropexit=False):
    P = bench.P
    env = dict(TRACE=tp, MODS=mp, MAXPAY=str(P["VMD_MAX_PAYLOAD"]), T_EXEC=str(P["VMD_MSG_LOAD_EXEC"]),
               T_PING=str(P["VMD_MSG_PING"]), T_STATUS=str(P["VMD_MSG_STATUS"]), T_PONG=str(P["VMD_MSG_PONG"]))
    r = tlc(ctx, "VmdTrace", "VmdTrace", workers=1, timeout=3000, env=env, deadlock=True,
            constants={"N": str(n), "Verify": "TRUE" if verify else "FALSE", "DropExit": "TRUE" if dropexit else "FALSE"})
    nev = sum(1 for _ in open(tp))
    at = None
    if r.violated:
        m = re.findall(r"/\\ i = (\d+)", "\n".join(r.trace[-1:]))
        at = int(m[-1]) if m else None
    elif "Model checking completed" not in r.out:
        raise InfraError("VmdTrace did not finish:\n" + r.out[-2000:])
    return r, nev, at


def first_unmatched(tp, at):
    if at is None:
        return None
    for j, line in enumerate(open(tp), 1):
        if j == at:
            return json.loads(line)
    return None


def validate_files(ctx, bench, prop, name, daemons, mods, findings, stats, traces, allow_no_verify=False):
    segs = []
    for evs, own in daemons:
        segs += segment(evs)
    if not segs:
        return None
    tp, mp, n = write_inputs(ctx, name, segs, mods)
    r, nev, at = run_tlc(ctx, bench, tp, mp, n)
    if r.violated:
        r, nev, at = run_tlc(ctx, bench, tp, mp, n)          # a rejection is reported only if it repeats
    traces["events"] += nev
    if not r.violated:
        traces["validated"] += len(segs)
        return tp, mp, n, {}
    ev = first_unmatched(tp, at)
    # DESIGN 5.2: attribution with the listed deviation switches, smallest set first; every switch in the accepted set
    # must be needed (the run without it is rejected), and each must correspond to a known-findings entry
    SW = {"VMD_NO_VERIFY": dict(verify=False), "VMD_DROPS_EXIT": dict(dropexit=True)}
    known_sw = {}
    for f in findings:
        for swname in f.get("match", {}).get("switches", []):
            known_sw[swname] = f
    cands = [[k] for k in SW if k in known_sw] + ([list(SW)] if all(k in known_sw for k in SW) else [])
    if r.violated == "Deadlock" and ev:
        for names in cands:
            kw = {}
            for k in names:
                kw.update(SW[k])
            r2, _, at2 = run_tlc(ctx, bench, tp, mp, n, **kw)
            if not r2.violated:
                for k in names:
                    ctx.known(known_sw[k]["id"], "session trace %s: event %s (%s) is explained only with the deviation switch %s" %
                              (name, at, ev.get("e"), k))
                stats["known"] += 1
                traces["validated"] += len(segs)
                traces.setdefault("with_switches", []).append(dict(trace=name, switches=names, first_unexplained_event=ev))
                return tp, mp, n, kw
    traces["rejected"] += 1
    path = ctx.save_replay("trace_%s_%s.ndjson" % (name, sha(open(tp).read())), src=tp)
    ctx.save_replay(os.path.basename(path) + ".mods", src=mp)
    ctx.violation("%s trace %s rejected by VmdTrace (%s) at event %s: %s" % (prop, name, r.violated, at, json.dumps(ev)[:300]), path)
    stats["violations"] += 1
    return None


def corruptions(tp, rng):
    """one-field corruptions / one dropped event of an accepted trace; each must be rejected"""
    lines = [json.loads(x) for x in open(tp)]
    idx = {}
    for j, e in enumerate(lines):
        if j <= max(400, len(lines) // 3):        # early events: a rejection is found quickly
            idx.setdefault(e["e"], []).append(j)
    out = []

    def variant(name, f):
        ls = [dict(x) for x in lines]
        if f(ls):
            out.append((name, ls))
    if idx.get("frame_out"):
        j = rng.choice(idx["frame_out"])

        def flip(ls):
            h = ls[j]["hex"]
            if not h:
                return False
            ls[j]["hex"] = ("0" if h[0] != "0" else "1") + h[1:]
            return True
        variant("frame byte changed", flip)

        def fd(ls):
            ls[j]["fd"] = ls[j]["fd"] + 1
            return True
        variant("frame written to another fd", fd)
    if idx.get("exit_sent"):
        j2 = rng.choice(idx["exit_sent"])

        def code(ls):
            ls[j2]["code"] = ls[j2]["code"] + 1
            return True
        variant("exit code changed", code)
    if idx.get("cleanup"):
        j3 = rng.choice(idx["cleanup"][:-1] or idx["cleanup"])

        def drop(ls):
            del ls[j3]
            return True
        variant("cleanup event dropped", drop)
    if idx.get("enter"):
        j4 = rng.choice(idx["enter"])

        def act(ls):
            ls[j4]["active"] = ls[j4]["active"] + 1
            return True
        variant("active count changed", act)
    if len(idx.get("frame_out", [])) >= 2:
        cands = [(a, b) for a, b in zip(idx["frame_out"], idx["frame_out"][1:]) if lines[a]["s"] == lines[b]["s"] and lines[a]["hex"] != lines[b]["hex"]]
        if cands:
            a, b = rng.choice(cands)

            def swap(ls):
                ls[a]["hex"], ls[b]["hex"] = ls[b]["hex"], ls[a]["hex"]
                ls[a]["len"], ls[b]["len"] = ls[b]["len"], ls[a]["len"]
                return True
            variant("two frames of a session swapped", swap)
    return out


def selftest(ctx, bench, accepted, rng, traces, how_many):
    tp, mp, n, kw = accepted
    caught, tried = 0, []
    for name, ls in corruptions(tp, rng)[:how_many]:
        d = ctx.dir("trc_%d" % len(tried))
        cp = os.path.join(d, "trace.ndjson")
        with open(cp, "w") as f:
            for e in ls:
                f.write(json.dumps(e, separators=(",", ":")) + "\n")
        r, _, at = run_tlc(ctx, bench, cp, mp, n, **kw)
        tried.append(dict(corruption=name, rejected=bool(r.violated), how=r.violated, at_event=at))
        caught += bool(r.violated)
    traces["selftest"] = tried
    if tried and caught < len(tried):
        raise InfraError("trace validator accepted a corrupted trace: %r" % [t for t in tried if not t["rejected"]])


def validate(ctx, bench, prop, rounds, findings, stats, traces, yield_seed=0):
    """C17 / C18: record, validate, self-test"""
    daemons, mods = record(ctx, bench, rounds, "tr" + prop, yield_seed)
    plain = [(e, o) for e, o in daemons if not o]
    host = [(e, o) for e, o in daemons if o]
    rng = random.Random(ctx.seed)
    acc = validate_files(ctx, bench, prop, "main", plain, mods, findings, stats, traces)
    for j, d in enumerate(host):
        validate_files(ctx, bench, prop, "hostile%d" % j, [d], mods, findings, stats, traces, allow_no_verify=True)
    if acc:
        selftest(ctx, bench, acc, rng, traces, 3 if ctx.tier == "quick" else 6)     # quick: frame byte, frame fd, exit code


def replay_trace(ctx, bench, path):
    """./check Cnn --replay <saved trace>: validate the saved event file again (module table saved next to it)"""
    mp = path + ".mods"
    n = max([json.loads(l).get("s", 0) for l in open(path)] + [2])
    r, nev, at = run_tlc(ctx, bench, path, mp, n)
    if r.violated:
        ctx.violation("trace rejected by VmdTrace (%s) at event %s: %s" % (r.violated, at, json.dumps(first_unmatched(path, at))[:300]), path)
        return 1
    log("trace accepted (%d events)" % nev)
    return 0
