"""Shared glue for C17/C18 (daemon): corpus, oracle (= standalone nano_vm), replay rounds, TSan/ASan log triage.

No expected value is computed here: scenarios and allowed reply classes come from spec/Vmd.tla (TLC), the
per-module observation comes from running the real `nano_vm x.nvm` of the tree under test.
"""
import glob
import json
import os
import random
import re
import sys
import threading
import time

from lib.common import InfraError, STANDINS, VERIF, log, sh, sha, tlc

sys.path.insert(0, STANDINS)
import vmd_clients as V  # noqa: E402

CORPUS = os.path.join(VERIF, "corpus", "vmd")
# abstract module of Vmd.tla -> corpus templates with that shape
SHAPES = {
    "zero": ["zero"],
    "one": ["one"],
    "two": ["heap", "many"],
    "many": ["many", "big", "heap"],
    "fail": ["rtfail", "assertfail", "failnl_oob"],
    "failp": ["failp_oob", "failp_assert"],     # output ends with an unterminated line, then a run-time error
    "tailp": ["tail"],                          # output ends with an unterminated line, normal end
    "code": ["exitcode"],
}
BIG = "big"          # output far beyond a socket buffer: used by the disconnect-while-printing behaviours


class Bench:
    """Builds, protocol constants, compiled corpus with the standalone observation of every module."""

    def __init__(self, ctx, variants=("plain",)):
        self.ctx = ctx
        self.trees = {}
        errs = []

        self.hook_applied_here = False

        def b(v):
            try:
                tree = ctx.build(v, targets=())          # copy only
                self.ensure_hook(tree)
                self.trees[v] = ctx.build(v, targets=("nano_virt", "nano_vm", "nano_vmd"))
            except Exception as e:      # re-raised in the main thread
                errs.append(e)
        th = [threading.Thread(target=b, args=(v,)) for v in variants]
        for t in th:
            t.start()
        self._threads = th
        self._errs = errs
        self.mods = {}
        self.P = None

    def ensure_hook(self, tree):
        """Hook H4 is add-only and inert without its environment variables.  When the tree under test does not carry
        it yet, it is applied to the scratch copy (never to the repository), so the check never talks to a shared
        /tmp daemon."""
        if "NANOLANG_VERIF_VMD_DIR" in open(os.path.join(tree, "src/nanovm/vmd_protocol.c")).read():
            return
        patch = os.path.join(VERIF, "hooks", "h4-vmd.patch")
        p = sh(["patch", "-p1", "--no-backup-if-mismatch", "-i", patch], cwd=tree, check=False)
        if p.returncode != 0:
            raise InfraError("hook H4 is not in the tree under test and hooks/h4-vmd.patch does not apply:\n%s%s" % (p.stdout[-800:], p.stderr[-800:]))
        self.hook_applied_here = True

    def wait(self):
        for t in self._threads:
            t.join()
        if self._errs:
            raise self._errs[0]
        tree = self.trees["plain"]
        self.P = V.parse_protocol(os.path.join(tree, "src/nanovm/vmd_protocol.h"))
        self.nano_vm = os.path.join(tree, "bin/nano_vm")
        self.nano_virt = os.path.join(tree, "bin/nano_virt")
        self.hooked = "NANOLANG_VERIF_VMD_DIR" in open(os.path.join(tree, "src/nanovm/vmd_protocol.c")).read()
        self.traced = "NANOLANG_VERIF_TRACE_VMD" in open(os.path.join(tree, "src/nanovm/vmd_server.c")).read()
        if self.hook_applied_here:
            self.ctx.assumptions.append("hook H4 (hooks/h4-vmd.patch) was not in the tree under test; it was applied to the scratch copy before building")
        if not self.hooked:
            raise InfraError("hook H4 (hooks/h4-vmd.patch) is not applied to the tree under test: the daemon would use "
                             "the shared /tmp socket; refusing to run")
        self.cdir = self.ctx.dir("corpus")
        return self

    def vmd(self, variant):
        return os.path.join(self.trees[variant], "bin/nano_vmd")

    # ---------------------------------------------------------------- corpus
    def module(self, template, ident):
        """compile corpus/vmd/<template>.nano with @ID@ = ident; cached; returns dict(path, blob, std)"""
        key = (template, ident)
        if key in self.mods:
            return self.mods[key]
        src = open(os.path.join(CORPUS, template + ".nano")).read().replace("@ID@", str(ident))
        base = os.path.join(self.cdir, "%s_%d" % (template, ident))
        with open(base + ".nano", "w") as f:
            f.write(src)
        p = sh([self.nano_virt, base + ".nano", "--emit-nvm", "-o", base + ".nvm"], cwd=self.cdir, env=self.ctx.env(),
               timeout=120, check=False)
        if p.returncode != 0 or not os.path.exists(base + ".nvm"):
            raise InfraError("corpus module %s does not compile: %s %s" % (template, p.stdout[-500:], p.stderr[-500:]))
        blob = open(base + ".nvm", "rb").read()
        if not V.nvm_crc_ok(blob):
            raise InfraError("nvm editor disagrees with the container checksum of %s" % base)
        std = V.standalone(self.nano_vm, base + ".nvm", env=self.ctx.env())
        m = dict(template=template, id=ident, path=base + ".nvm", blob=blob, std=std)
        self.mods[key] = m
        return m

    def preload(self, templates, ids):
        from lib.common import parallel_map
        parallel_map(lambda k: self.module(*k), [(t, i) for t in templates for i in ids])

    def check_shapes(self):
        """the corpus modules must have the shape the abstract modules of Vmd.tla stand for"""
        for name, tpls in SHAPES.items():
            for t in tpls:
                s = self.module(t, 1)["std"]
                fails = name in ("fail", "failp")
                if fails != (s["exit"] != 0 and s["stderr"].startswith(b"Runtime error:")):
                    raise InfraError("corpus module %s: standalone run %r does not have shape %s" % (t, (s["exit"], s["stderr"][:80]), name))
                if (name == "zero") != (len(s["stdout"]) == 0):
                    raise InfraError("corpus module %s: standalone output length %d does not fit shape %s" % (t, len(s["stdout"]), name))
                if str(1).encode() not in s["stdout"] and name not in ("zero",):
                    raise InfraError("corpus module %s: output does not carry the client id" % t)
                if (name in ("failp", "tailp")) != (len(s["stdout"]) > 0 and not s["stdout"].endswith(b"\n")):
                    raise InfraError("corpus module %s: shape %s is about the last line being (un)terminated, standalone "
                                     "output ends with %r" % (t, name, s["stdout"][-20:]))

    def hostile(self, variant, ident=1):
        """hostile module + proof that standalone nano_vm refuses it with a verification error"""
        key = ("hostile:" + variant, ident)
        if key in self.mods:
            return self.mods[key]
        base = self.module("many", ident)
        blob = V.nvm_hostile(base["blob"], variant)
        path = os.path.join(self.cdir, "hostile_%s_%d.nvm" % (variant, ident))
        with open(path, "wb") as f:
            f.write(blob)
        # hostile by construction: the function-table entry, re-read from the produced image, lies outside the code
        # section in exact arithmetic (the verifier of the tree under test is *not* the judge of that - a broken
        # verifier is exactly what must not bring the daemon down)
        why = V.nvm_hostile_proof(blob)
        if not why:
            raise InfraError("nvm editor: variant %s did not produce a module that is hostile by construction" % variant)
        std = V.standalone(self.nano_vm, path, env=self.ctx.env(), timeout=60)
        refused = std["exit"] == 1 and b"verification failed" in std["stderr"]
        if why == "opcode" and not refused:
            return None                     # cannot tell that 0xFF is undefined without the verifier: variant not used
        m = dict(template="hostile:" + variant, id=ident, path=path, blob=blob, std=std, standalone_refused=refused, why=why)
        self.mods[key] = m
        return m


    def hostile_variants(self):
        """the hostile variants that are usable on this tree (hostile by construction, see hostile())"""
        if not hasattr(self, "_hv"):
            self._hv = [v for v in V.HOSTILE_VARIANTS if self.hostile(v, 1) is not None]
            if not self._hv:
                raise InfraError("no usable hostile module")
        return self._hv


def sweep_clients(bench, rng, idbase=1):
    """every corpus module once through the real client and once through a raw socket, all at the same time: whatever
    the seeded sample of scenarios contains, each module shape is compared with its standalone run in every run"""
    out = []
    tpls = sorted({t for ts in SHAPES.values() for t in ts})
    for j, (t, via) in enumerate((t, v) for t in tpls for v in ("cli", "raw")):
        m = bench.module(t, idbase + j)
        out.append(dict(id=idbase + j, kind="exec", c=j + 1, allowed=["exit"], abstract="sweep", via=via, template=t,
                        path=m["path"], blob=m["blob"], std=m["std"]))
    rng.shuffle(out)
    return out


# -------------------------------------------------------------------- observation comparison
def err_class(b):
    if not b:
        return ("none", b"")
    if b.startswith(b"Runtime error:"):
        return ("runtime", b)                 # text must be identical
    return ("load", b"")                      # load/verification/connection diagnostics name the file: class only


def client_stderr(obs):
    """stderr of the client proper: a daemon launched lazily by `nano_vm --daemon` inherits the client's stderr and may
    write its own "[vmd] ..." diagnostics there (e.g. "[vmd] Daemon already running" when two clients raced to launch
    it); those lines are the daemon's, not the program's error text, and are not compared (they are counted)."""
    if obs.get("via") != "cli":
        return obs["stderr"], 0
    lines = obs["stderr"].split(b"\n")
    keep = [l for l in lines if not l.startswith(b"[vmd] ")]
    return b"\n".join(keep), len(lines) - len(keep)


def compare_exec(obs, std):
    """differences between what a well-formed client observed and the standalone run (empty list = transparent)"""
    d = []
    if obs.get("reply") not in ("exit",):
        d.append("no result: reply=%s %s" % (obs.get("reply"), obs.get("error") or obs.get("protocol_error") or ""))
        return d
    if obs["stdout"] != std["stdout"]:
        a, b = obs["stdout"], std["stdout"]
        n = next((i for i in range(min(len(a), len(b))) if a[i] != b[i]), min(len(a), len(b)))
        d.append("stdout differs at byte %d (got %d bytes, standalone %d): got %r, standalone %r" %
                 (n, len(a), len(b), a[max(0, n - 20):n + 40], b[max(0, n - 20):n + 40]))
    stderr, _ = client_stderr(obs)
    if err_class(stderr) != err_class(std["stderr"]):
        d.append("error text differs: got %r, standalone %r" % (stderr[:200], std["stderr"][:200]))
    if obs["exit"] != std["exit"]:
        d.append("exit status differs: got %r, standalone %r" % (obs["exit"], std["exit"]))
    if obs.get("via") == "raw":
        if obs.get("frames_after_exit"):
            d.append("%d frames after the exit frame" % obs["frames_after_exit"])
        if obs.get("unknown_types"):
            d.append("frames of unknown type %r" % obs["unknown_types"])
        if obs.get("protocol_error"):
            d.append("framing error: %s" % obs["protocol_error"])
    return d


# -------------------------------------------------------------------- scenarios -> concrete clients
def scenarios_from(ctx, cfg):
    r = tlc(ctx, "Vmd", cfg, workers=2, timeout=600)
    if r.violated or not r.records:
        raise InfraError("scenario generator %s failed: %s" % (cfg, r.out[-1500:]))
    return r.records


def concretize(bench, scen, rng, idbase, hostile_variant=None, cli_share=0.5, big=True):
    """one Vmd.tla scenario -> list of concrete clients for vmd_clients.play (unique module per client)"""
    n = len(scen["kinds"])
    order = scen.get("order") or list(range(1, n + 1))
    clients = [None] * n
    for c in range(n):
        kind, am = scen["kinds"][c], scen["mods"][c]
        ident = idbase + c
        cl = dict(id=ident, kind=kind, c=c + 1, allowed=scen["allowed"][c], abstract=am)
        if kind in ("exec",):
            m = bench.module(rng.choice([t for t in SHAPES[am] if big or t != BIG]), ident)
            cl.update(via="cli" if rng.random() < cli_share else "raw")
        elif kind in ("disc_before", "disc_mid", "disc_after"):
            m = bench.module(BIG if big and (kind != "disc_after" or rng.random() < 0.5) else "many", ident)
            cl.update(via="raw", expect_out_len=len(m["std"]["stdout"]))
        elif kind == "hostile":
            usable = bench.hostile_variants()
            hv = hostile_variant if hostile_variant in usable else rng.choice(usable)
            m = bench.hostile(hv, ident)
            cl.update(via="raw", hostile_variant=m["template"].split(":")[1])
        else:
            m = bench.module("one", ident)
            cl.update(via="raw")
        cl.update(template=m["template"], path=m["path"], blob=m["blob"], std=m["std"])
        clients[c] = cl
    # arrival schedule of the spec: order[i] arrives after order[i-1] has *finished* when gaps[i-1] = "after"
    for i in range(1, n):
        if scen["gaps"][i - 1] == "after":
            clients[order[i] - 1]["after_c"] = order[i - 1]
    return [clients[o - 1] for o in order]


def play_round(bench, dm, groups, rng, workdir, sync_payload=False):
    """groups: list of client lists (each from concretize); all groups run concurrently against dm"""
    flat = []
    for g in groups:
        base = len(flat)
        pos = {cl["c"]: base + i for i, cl in enumerate(g)}
        for cl in g:
            cl = dict(cl)
            cl["after"] = pos[cl["after_c"]] if "after_c" in cl else None
            flat.append(cl)
    obs = V.play(dm, flat, rng, bench.nano_vm, workdir, sync_payload=sync_payload)
    return flat, obs


def describe(flat, obs=None):
    out = []
    for i, cl in enumerate(flat):
        d = {k: cl[k] for k in ("id", "kind", "via", "template", "abstract", "after", "hostile_variant", "allowed") if k in cl}
        if obs:
            d["observed"] = V.jsonable({k: v for k, v in obs[i].items() if k not in ("via", "kind")})
            d["standalone"] = V.jsonable(cl["std"])
        out.append(d)
    return out


# -------------------------------------------------------------------- sanitizer logs
def tsan_reports(text):
    """split ThreadSanitizer output into reports; returns list of dict(kind, text, sites)"""
    reps = []
    for m in re.finditer(r"WARNING: ThreadSanitizer: ([^\n(]+).*?(?=\n==================\n|\Z)", text, re.S):
        body = m.group(0)
        funcs = re.findall(r"#\d+ (\S+) ", body)
        locs = re.findall(r"Location is global '([^']+)'", body)
        # the two racing accesses: first frame of every "Read of / Write of / Previous ..." block
        acc = re.findall(r"(?:Read|Write|Previous read|Previous write|Atomic read|Atomic write|Previous atomic \w+) of size \d+ at \S+ by [^\n]*\n\s+#0 (\S+) ", body)
        hook = bool(acc or locs) and all(a.startswith("nlv_") for a in acc) and all(g.startswith("nlv_") for g in locs)
        reps.append(dict(kind=m.group(1).strip(), text=body[:4000], funcs=funcs, globals=locs, access=acc, hook_only=hook))
    return reps


def asan_reports(text):
    return [m.group(0)[:3000] for m in re.finditer(r"(==\d+==ERROR: AddressSanitizer|runtime error:).*?(?=\n\n|\Z)", text, re.S)]


def match_finding(findings, **facts):
    """a known-findings entry matches when every key of its `match` object is satisfied by the facts of the failure"""
    for f in findings:
        m = f.get("match", {})
        ok = True
        for k, want in m.items():
            if k in ("by", "comment", "switches"):
                continue
            have = facts.get(k)
            if isinstance(want, list):
                if isinstance(have, (list, set, tuple)):
                    ok = ok and bool(set(have) & set(want))
                else:
                    ok = ok and have in want
            else:
                ok = ok and have == want
        if ok and m:
            return f
    return None
