"""Shared glue for the NanoISA / NvmFormat slices (C11, C10): constant extraction, module dumps.

No oracle lives here: this file turns what the code under test reports about itself
(isa_get_info, isa_operand_size, the NanoOpcode enum) into TLA+ constants, and converts
between the JSON shapes of the probes and of TLC.
"""
import json
import os
import re

from lib.common import InfraError, sh, tla, write_module, REPO

SENTINELS = ("OP_COUNT",)          # `OP_COUNT = 0xB3  /* Sentinel */` is not an instruction


def parse_opcode_enum(tree):
    """Enumerators of `typedef enum { ... } NanoOpcode;` in src/nanoisa/isa.h -> {name: value}."""
    text = open(os.path.join(tree, "src", "nanoisa", "isa.h")).read()
    text = re.sub(r"/\*.*?\*/", "", text, flags=re.S)
    m = re.search(r"typedef\s+enum\s*\{([^}]*)\}\s*NanoOpcode\s*;", text, re.S)
    if not m:
        raise InfraError("cannot find the NanoOpcode enum in isa.h")
    out, nxt = {}, 0
    for item in m.group(1).split(","):
        item = item.strip()
        if not item:
            continue
        mm = re.match(r"^(\w+)\s*(?:=\s*(\S+))?$", item)
        if not mm:
            raise InfraError("cannot parse enumerator %r" % item)
        val = int(mm.group(2), 0) if mm.group(2) else nxt
        out[mm.group(1)] = val
        nxt = val + 1
    return out


def extract_isa_constants(ctx, probe):
    """Run `isa_probe table` and parse isa.h of the tree that was built."""
    tree = os.path.dirname(os.path.dirname(probe))
    p = sh([probe, "table"], env=ctx.env(), timeout=60)
    tab = json.loads(p.stdout)
    enum = parse_opcode_enum(tree)
    opcodes = sorted(v for k, v in enum.items() if k not in SENTINELS)
    if any(not (0 <= v <= 255) for v in opcodes):
        raise InfraError("opcode enumerator outside a byte")
    return tab, enum, opcodes


def mc_module_text(tab, opcodes, deep, extra=""):
    rows = []
    for e in tab["table"]:
        if e["valid"]:
            rows.append("[valid |-> TRUE, name |-> %s, opcode |-> %d, byname |-> %d, kinds |-> %s]" % (
                tla(e["name"]), e["opcode"], e["by_name"], tla(e["kinds"])))
        else:
            rows.append('[valid |-> FALSE, name |-> "", opcode |-> -1, byname |-> -1, kinds |-> <<>>]')
    body = "MC_TableSeq == <<\n  " + ",\n  ".join(rows) + ">>\n"
    body += "MC_Table == [b \\in 0 .. 255 |-> MC_TableSeq[b + 1]]\n"
    body += "MC_Opcodes == {%s}\n" % ", ".join(str(x) for x in opcodes)
    ks = tab["kind_sizes"]
    body += "MC_KindSize == " + " @@ ".join("(%s :> %d)" % (tla(k), v) for k, v in ks.items()) + "\n"
    body += "MC_MaxOperands == %d\nMC_MaxInstrSize == %d\nMC_Deep == %s\n" % (
        tab["max_operands"], tab["max_instr_size"], "TRUE" if deep else "FALSE")
    return body + extra


def write_mc(ctx, name, extends, tab, opcodes, deep, extra=""):
    path = os.path.join(ctx.dir("mc"), name + ".tla")
    write_module(path, name, mc_module_text(tab, opcodes, deep, extra), extends=(extends,))
    return path


def hexs(byte_list):
    return "".join("%02x" % b for b in byte_list)


def unhex(s):
    return list(bytes.fromhex(s))


def run_probe_cases(ctx, cmd, n, timeout=1200):
    """Run a probe that answers one JSON line per input case (field id = 0..n-1, in order).
    Returns (results by id, crash) where crash is None or dict(id=<first unanswered case>, rc, stderr):
    a probe killed by a signal in the middle of the list died *in the code under test* on that case."""
    import subprocess
    try:
        p = subprocess.run(cmd, env=dict(os.environ, **ctx.env()), stdout=subprocess.PIPE, stderr=subprocess.PIPE, timeout=timeout)
    except subprocess.TimeoutExpired:
        raise InfraError("probe timed out: %s" % " ".join(cmd))
    results = {}
    for line in p.stdout.decode(errors="replace").splitlines():
        try:
            x = json.loads(line)
        except ValueError:
            continue                     # a torn last line of a crashed probe
        results[x["id"]] = x
    if p.returncode == 0:
        if len(results) != n:
            raise InfraError("probe answered %d of %d cases: %s" % (len(results), n, " ".join(cmd)))
        return results, None
    if p.returncode < 0 or p.returncode >= 128 or b"Sanitizer" in p.stderr:
        nxt = 0
        while nxt in results:
            nxt += 1
        return results, dict(id=nxt, rc=p.returncode, stderr=p.stderr.decode(errors="replace")[-1500:])
    raise InfraError("probe failed rc=%d: %s\n%s" % (p.returncode, " ".join(cmd), p.stderr.decode(errors="replace")[-2000:]))
