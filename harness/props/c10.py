"""C10 - stored and embedded bytecode modules run exactly like the in-memory module.

Oracles: NvmFormat.tla (serialize/deserialize round trip, idempotence) and NvmRun.tla (how the exit status
and the output are derived from the VM result by the three runners), both evaluated by TLC.  This file only
builds, runs, converts and compares.
"""
import glob
import json
import os
import re
import subprocess

from lib.common import InfraError, VERIF, findings_for, log, parallel_map, sh, sha, tla, tlc, write_module
from props.isa_common import hexs, run_probe_cases

RUNNERS = ("run", "vmfile", "wrapper")


def workers(ctx):
    return None if os.environ.get("VERIF_JOBS") is None else int(os.environ["VERIF_JOBS"])


# ---------------------------------------------------------------- constants
def extract_format_constants(tree):
    """sizes, limits and section numbers of src/nanoisa/nvm_format.h"""
    text = open(os.path.join(tree, "src", "nanoisa", "nvm_format.h")).read()
    text = re.sub(r"/\*.*?\*/", "", text, flags=re.S)

    def define(name):
        m = re.search(r"#define\s+%s\s+(\S+)" % name, text)
        if not m:
            raise InfraError("nvm_format.h: no #define %s" % name)
        v = m.group(1)
        if v.startswith("'"):
            return ord(v.strip("'"))
        return int(v, 0)

    def enumerator(name):
        m = re.search(r"\b%s\s*=\s*(\w+)" % name, text)
        if not m:
            raise InfraError("nvm_format.h: no enumerator %s" % name)
        return int(m.group(1), 0)

    consts = {"HeaderSize": define("NVM_HEADER_SIZE"), "DirEntrySize": define("NVM_SECTION_ENTRY_SIZE"),
              "FnEntrySize": define("NVM_FUNCTION_ENTRY_SIZE"), "DebugEntrySize": define("NVM_DEBUG_ENTRY_SIZE"),
              "ImportBaseSize": define("NVM_IMPORT_ENTRY_BASE_SIZE"), "MaxSections": define("NVM_MAX_SECTIONS"),
              "FormatVersion": define("NVM_FORMAT_VERSION"),
              "SecStrings": enumerator("NVM_SECTION_STRINGS"), "SecCode": enumerator("NVM_SECTION_CODE"),
              "SecFunctions": enumerator("NVM_SECTION_FUNCTIONS"), "SecDebug": enumerator("NVM_SECTION_DEBUG"),
              "SecImports": enumerator("NVM_SECTION_IMPORTS")}
    magic = [define("NVM_MAGIC_%d" % i) for i in range(4)]
    return consts, magic


def format_mc(ctx, magic):
    path = os.path.join(ctx.dir("mc"), "NvmFormat_MC.tla")
    write_module(path, "NvmFormat_MC", "MC_Magic == %s\n" % tla(magic), extends=("NvmFormat",))
    return path


def fmt_constants(consts, deep, real=""):
    c = {k: str(v) for k, v in consts.items()}
    c["Deep"] = "TRUE" if deep else "FALSE"
    c["RealFile"] = '"%s"' % real
    return c


# ---------------------------------------------------------------- format: generated modules
def h(x):
    return hexs(x)


def spec_module_dump(m):
    """spec module (byte lists) -> the shape of nvm_probe's dump (hex strings)"""
    return dict(flags=h(m["flags"]), entry=h(m["entry"]), strings=[h(s) for s in m["strings"]], code=h(m["code"]),
                functions=[{k: h(f[k]) for k in ("name", "arity", "off", "len", "locals", "upvalues")} for f in m["functions"]],
                imports=[dict(mod=h(e["mod"]), fn=h(e["fn"]), ret=h(e["ret"]), pc=len(e["params"]), params=h(e["params"]))
                         for e in m["imports"]],
                debug=[dict(off=h(d["off"]), line=h(d["line"])) for d in m["debug"]])


FIELDS = ("strings", "code", "functions", "imports", "debug", "entry", "flags")


def judge_stages(res):
    """the property on one module: loaded = built field by field, re-serialization identical"""
    bad = []
    if not res.get("ser_ok"):
        return ["nvm_serialize failed"]
    if not res.get("load_ok"):
        return ["nvm_deserialize refused the bytes nvm_serialize had just produced"]
    for k in FIELDS:
        if res["loaded"][k] != res["built"][k]:
            bad.append("%s differ after reload: built %s, loaded %s" % (k, json.dumps(res["built"][k])[:200],
                                                                          json.dumps(res["loaded"][k])[:200]))
    if not res.get("ser2_ok"):
        bad.append("second nvm_serialize failed")
    elif res["bytes2"] != res["bytes"]:
        bad.append("serialize(deserialize(serialize(m))) differs from serialize(m)")
    return bad


def run_format_generated(ctx, probe, mc, consts, cov):
    deep = ctx.tier == "thorough"
    r = tlc(ctx, "NvmFormat_MC", cfg="NvmFormat", workers=workers(ctx), timeout=3400, cwd_files=[mc],
            constants=fmt_constants(consts, deep))
    if r.violated == "ASSUME":
        raise InfraError("NvmFormat.tla: an ASSUME about the extracted sizes is false; the layout model does not apply\n" + r.out[-1500:])
    if r.violated:
        raise InfraError("NvmFormat.tla violates its own law %s\n%s" % (r.violated, "\n".join(r.trace[:2])))
    cases = r.records
    if not cases:
        raise InfraError("NvmFormat.tla emitted no modules")
    cases.sort(key=lambda c: json.dumps([c["calls"], c["m"]], sort_keys=True))
    inp = os.path.join(ctx.dir("fmt"), "modules.ndjson")
    with open(inp, "w") as f:
        for i, c in enumerate(cases):
            m = c["m"]
            f.write(json.dumps(dict(id=i, calls=c["calls"], code=m["code"], functions=m["functions"], imports=m["imports"],
                                    debug=m["debug"], flags=m["flags"], entry=m["entry"])) + "\n")
    results, crash = run_probe_cases(ctx, [probe, "build", inp], len(cases))
    if crash:
        c = cases[crash["id"]] if crash["id"] < len(cases) else None
        path = ctx.save_replay("format-crash-%d.json" % crash["id"], json.dumps(dict(kind="format", case=c, crash=crash), indent=1))
        ctx.violation("format: the real builder/serializer/loader died (rc %s) on module %s" % (crash["rc"], json.dumps(c)[:200]), path)
        cases = cases[:crash["id"]]
    nbad = drift_bytes = drift_idx = 0
    distinct = set()
    for i, c in enumerate(cases):
        res = results[i]
        want = spec_module_dump(c["m"])
        distinct.add(sha(json.dumps(want, sort_keys=True)))
        if res["add_idx"] != c["idxs"]:
            drift_idx += 1
        built = res["built"]
        # the module the real API built must be the module the spec describes (otherwise the replay says nothing):
        # pool differences can only come from nvm_add_string behaving differently from AddString -> drift, still judged below
        if any(built[k] != want[k] for k in FIELDS if k != "strings"):
            raise InfraError("probe built a different module than specified (case %d)" % i)
        bad = judge_stages(res)
        if res.get("ser_ok") and res["bytes"] != h(c["bytes"]):
            drift_bytes += 1
        if bad:
            nbad += 1
            if nbad <= 5:
                path = ctx.save_replay("format-case-%d.json" % i, json.dumps(dict(kind="format", case=c, observed=res, violated=bad), indent=1))
                ctx.violation("format: %s (strings=%s functions=%d imports=%d debug=%d code=%s)" % (
                    bad[0], want["strings"], len(want["functions"]), len(want["imports"]), len(want["debug"]), want["code"]), path)
    cov["format_generated"] = dict(modules=len(cases), distinct=len(distinct), failed=nbad, drift_bytes=drift_bytes,
                                   drift_add_string_index=drift_idx, states=r.distinct, transitions=r.generated, deep=deep)
    mid = cases[len(cases) // 2]
    cov.setdefault("samples", []).append(dict(kind="format", calls=mid["calls"], module=spec_module_dump(mid["m"]),
                                              bytes=h(mid["bytes"])))
    return len(cases)


# ---------------------------------------------------------------- programs
HEADER = re.compile(r"/\*\s*c10:\s*status=(\w+)\s+tag=(\w+)\s+val=(-?\d+)\s+init_lines=(\d+)\s*\*/")


def corpus_programs():
    progs = []
    for s in sorted(glob.glob(os.path.join(VERIF, "corpus", "c10", "*.nano"))):
        m = HEADER.search(open(s).read())
        if not m:
            raise InfraError("%s has no `/* c10: status= tag= val= init_lines= */` header" % s)
        val = int(m.group(3)) & ((1 << 64) - 1)
        progs.append(dict(name=os.path.basename(s)[:-5], src=s, status=m.group(1), tag=m.group(2),
                          val=[(val >> (8 * k)) & 255 for k in range(8)], init=1 if int(m.group(4)) else 0,
                          init_lines=int(m.group(4)), main=1))
    return progs


def extra_programs(ctx, tree):
    """thorough tier: programs of the repository that compile and run (no declared result: three-way comparison only)"""
    out = []
    for s in sorted(glob.glob(os.path.join(VERIF, "corpus", "isa", "*.nano")) + glob.glob(os.path.join(tree, "tests", "nl_*.nano")) +
                    glob.glob(os.path.join(tree, "examples", "language", "nl_*.nano"))):
        text = open(s, errors="replace").read()
        if re.search(r"get_argc|get_argv|getenv|\brand|random|time_|clock|read_line|stdin", text):
            continue        # observes its command line / environment / clock: legitimately differs between runners
        out.append(dict(name=os.path.basename(os.path.dirname(s)) + "-" + os.path.basename(s)[:-5], src=s, declared=False,
                        has_global_init=bool(re.search(r"^let\s", text, re.M))))
    return out


def run_one(ctx, tree, prog):
    """compile once per artifact kind and run the three runners; returns {runner: (rc, stdout, stderr)} or {'skip': why}"""
    d = ctx.dir("prog." + prog["name"])
    env = dict(os.environ)
    env.update(ctx.env())
    virt = os.path.join(tree, "bin", "nano_virt")
    vm = os.path.join(tree, "bin", "nano_vm")

    def run(cmd, timeout=120):
        try:
            p = subprocess.run(cmd, cwd=d, env=env, stdin=subprocess.DEVNULL, stdout=subprocess.PIPE, stderr=subprocess.PIPE,
                               timeout=timeout)
            return (p.returncode, p.stdout, p.stderr.decode(errors="replace"))
        except subprocess.TimeoutExpired:
            return ("timeout", b"", "")
    res = {}
    res["run"] = run([virt, prog["src"], "--run"])
    nvm = os.path.join(d, "p.nvm")
    e = run([virt, prog["src"], "--emit-nvm", "-o", nvm])
    if e[0] != 0 or not os.path.exists(nvm):
        return dict(skip="--emit-nvm failed: %s" % e[2][-300:], run=res["run"])
    w = os.path.join(d, "w")
    b = run([virt, prog["src"], "-o", w], timeout=300)
    if b[0] != 0 or not os.path.exists(w):
        return dict(skip="wrapper build failed: %s" % b[2][-300:], run=res["run"])
    res["vmfile"] = run([vm, nvm])
    res["wrapper"] = run([w])
    res["emit_out"] = e[1]
    res["build_out"] = b[1]
    res["nvm"] = nvm
    return res


def status_of(rc):
    if rc == "timeout":
        return "timeout"
    return rc if rc >= 0 else "signal %d" % -rc


def limit_programs(ctx):
    """generated programs at table-size boundaries of the module format (function table, string pool, globals): what the
    loader reads back must be what the compiler wrote, however large the tables are"""
    d = ctx.dir("c10limits")
    out = []

    def add(name, text, val, init_lines):
        path = os.path.join(d, name + ".nano")
        open(path, "w").write("/* c10: status=ok tag=int val=%d init_lines=%d */\n" % (val, init_lines) + text)
        v = val & ((1 << 64) - 1)
        out.append(dict(name=name, src=path, status="ok", tag="int", val=[(v >> (8 * k)) & 255 for k in range(8)], init=1 if init_lines else 0,
                        init_lines=init_lines, main=1))
    counts = (255, 256, 257, 511, 512, 513) if ctx.tier == "quick" else (255, 256, 257, 511, 512, 513, 1023, 1024, 1025, 4096)
    for n in counts:
        # n helper functions, one global initialised by a call (so that __init__ is the last table entry), main uses first, middle, last helper
        fns = "".join("fn h%d(x: int) -> int { return (+ x %d) }\nshadow h%d { assert true }\n" % (k, k % 7, k) for k in range(n))
        text = fns + "fn side(x: int) -> int { (println \"initialising\") return x }\nshadow side { assert true }\nlet g: int = (side 4)\n" + \
            "fn main() -> int {\n    (println (h0 1))\n    (println (h%d 1))\n    (println (h%d 1))\n    return (+ g 1)\n}\nshadow main { assert true }\n" % (n // 2, n - 1)
        add("limit_functions_%d" % n, text, 5, 1)
    for n in ((300, 70000) if ctx.tier == "thorough" else (300,)):
        lits = "".join("    set acc (+ acc (str_length \"s%05d\"))\n" % k for k in range(n))
        text = "fn main() -> int {\n    let mut acc: int = 0\n" + lits + "    (println acc)\n    (println \"\")\n    return 3\n}\nshadow main { assert true }\n"
        add("limit_strings_%d" % n, text, 3, 0)
    # the empty string as the last literal of the last function (a length prefix in the last four bytes of the pool)
    add("limit_trailing_empty_string", "fn main() -> int {\n    (println \"x\")\n    (print \"\")\n    return 7\n}\nshadow main { assert true }\n", 7, 0)
    return out


def run_programs(ctx, tree, cov, switches):
    progs = corpus_programs() + limit_programs(ctx)
    # --- the prescription: NvmRun.tla, once without deviations (model-checked), once with the listed ones
    mc = os.path.join(ctx.dir("mc"), "NvmRun_MC.tla")
    decl = [dict(name=p["name"], status=p["status"], tag=p["tag"], val=p["val"], init=p["init"], main=p["main"]) for p in progs]
    write_module(mc, "NvmRun_MC", "MC_Programs == %s\n" % tla(decl), extends=("NvmRun",))
    r0 = tlc(ctx, "NvmRun_MC", cfg="NvmRun", workers=workers(ctx), timeout=600, cwd_files=[mc], constants={"Dev": "{}"})
    if r0.violated:
        raise InfraError("NvmRun.tla violates %s without deviations\n%s" % (r0.violated, r0.out[-2000:]))
    devs = sorted(d for d in switches if d in ("NANOVM_DROPS_EXIT", "WRAPPER_INIT_TWICE"))
    r1 = tlc(ctx, "NvmRun_MC", cfg="NvmRunDev", workers=workers(ctx), timeout=600, cwd_files=[mc],
             constants={"Dev": "{" + ", ".join('"%s"' % d for d in devs) + "}"})
    if r1.violated:
        raise InfraError("NvmRun.tla (with deviations) violates %s\n%s" % (r1.violated, r1.out[-2000:]))
    want = {(x["name"], x["runner"]): x for x in r0.records}
    pred = {(x["name"], x["runner"]): x for x in r1.records}
    # --- run the real things
    items = list(progs)
    if ctx.tier == "thorough":
        items += extra_programs(ctx, tree)
    results = parallel_map(lambda p: run_one(ctx, tree, p), items, jobs=workers(ctx))
    nviol = compared = skipped = 0
    known = {}
    samples = []
    nvms = []
    for p, res in zip(items, results):
        declared = p.get("declared", True)
        if "skip" in res:
            if declared:
                raise InfraError("corpus program %s: %s" % (p["name"], res["skip"]))
            skipped += 1
            continue
        if any(res[k][0] == "timeout" for k in RUNNERS):
            if declared:
                raise InfraError("corpus program %s timed out" % p["name"])
            skipped += 1
            continue
        nvms.append((p, res["nvm"]))
        ref_rc, ref_out, _ = res["run"]
        lines = ref_out.split(b"\n")
        init_chunk = b"\n".join(lines[:p.get("init_lines", 0)]) + (b"\n" if p.get("init_lines", 0) else b"")
        main_chunk = ref_out[len(init_chunk):]
        chunk = {"init": init_chunk, "main": main_chunk}
        for runner in RUNNERS:
            rc, out, err = res[runner]
            compared += 1
            if declared:
                w = want[(p["name"], runner)]
                q = pred[(p["name"], runner)]
                want_rc, want_out = w["exit"], b"".join(chunk[c] for c in w["out"])
                pred_rc, pred_out = q["exit"], b"".join(chunk[c] for c in q["out"])
            else:                                   # no declaration: the reference is --run, as the property says
                want_rc, want_out = ref_rc, ref_out
                vm_error = "runtime error:" in res["run"][2]
                pred_rc = 0 if (runner == "vmfile" and "NANOVM_DROPS_EXIT" in devs and not vm_error) else ref_rc
                pred_out = ref_out
                if (runner == "wrapper" and "WRAPPER_INIT_TWICE" in devs and p.get("has_global_init") and out != ref_out
                        and out.endswith(ref_out) and ref_out.startswith(out[:len(out) - len(ref_out)])):
                    pred_out = out              # the initialisers' output (a prefix of the reference) printed twice
            if rc == want_rc and out == want_out:
                continue
            what = []
            if rc != want_rc:
                what.append("exit status %s, prescribed %s" % (status_of(rc), want_rc))
            if out != want_out:
                what.append("stdout %r, prescribed %r" % (out[:120], want_out[:120]))
            blame = []
            if isinstance(rc, int) and rc >= 0 and rc == pred_rc and out == pred_out and (pred_rc, pred_out) != (want_rc, want_out):
                if rc != want_rc:
                    blame.append("NANOVM_DROPS_EXIT")
                if out != want_out:
                    blame.append("WRAPPER_INIT_TWICE")
            if blame and all(b in switches for b in blame):
                for b in blame:
                    ctx.known(switches[b], "%s of %s: %s" % (runner, p["name"], "; ".join(what)))
                    known[b] = known.get(b, 0) + 1
                continue
            nviol += 1
            if nviol <= 6:
                art = dict(kind="program", source=p["src"], runner=runner, observed=dict(exit=status_of(rc), stdout=out.decode(errors="replace"),
                           stderr=err[-500:]), prescribed=dict(exit=want_rc, stdout=want_out.decode(errors="replace")),
                           reference_run=dict(exit=status_of(ref_rc), stdout=ref_out.decode(errors="replace")))
                path = ctx.save_replay("program-%s-%s.json" % (p["name"], runner), json.dumps(art, indent=1))
                ctx.violation("%s of %s: %s" % (runner, p["name"], "; ".join(what)), path)
        if len(samples) < 3:
            samples.append(dict(kind="program", name=p["name"], observed={k: dict(exit=status_of(res[k][0]),
                           stdout=res[k][1].decode(errors="replace")[:200]) for k in RUNNERS}))
    cov["runner_programs"] = dict(programs=len(items) - skipped, skipped=skipped, runner_observations=compared, violations=nviol,
                           known_by_switch=known, declared=len(progs),
                           model_states=r0.distinct + r1.distinct, model_transitions=r0.generated + r1.generated)
    cov.setdefault("samples", []).extend(samples)
    return nvms, compared


# ---------------------------------------------------------------- format: real files
def run_format_real(ctx, probe, mc, consts, nvms, cov):
    files = [f for _, f in nvms]
    p = sh([probe, "files"] + files, env=ctx.env(), timeout=600, check=False)
    if p.returncode != 0:
        raise InfraError("nvm_probe files failed rc=%d: %s" % (p.returncode, p.stderr[-2000:]))
    results = [json.loads(l) for l in p.stdout.splitlines()]
    if len(results) != len(files):
        raise InfraError("nvm_probe files answered %d of %d" % (len(results), len(files)))
    nbad = 0
    real = os.path.join(ctx.dir("fmt"), "c10_real_files.ndjson")
    with open(real, "w") as f:
        for (prog, _), res in zip(nvms, results):
            bad = []
            if not res.get("file_load_ok"):
                bad = ["nvm_deserialize refused the file written by nano_virt --emit-nvm"]
            else:
                bad = judge_stages(res)
                if res.get("ser_ok") and res["bytes"] != res["file_bytes"]:
                    bad.append("serialize(deserialize(file)) differs from the file")
            if bad:
                nbad += 1
                if nbad <= 5:
                    path = ctx.save_replay("format-file-%s.json" % prog["name"], json.dumps(dict(kind="file", source=prog["src"],
                                           violated=bad, built=res.get("built"), loaded=res.get("loaded")), indent=1))
                    ctx.violation("format: %s (%s)" % (bad[0], prog["name"]), path)
            f.write(json.dumps(dict(bytes=list(bytes.fromhex(res["file_bytes"])))) + "\n")
    # the code generator's in-memory module against its own reload (the probe runs nano_virt's pipeline in process)
    def compile_one(item):
        prog, _ = item
        q = sh([probe, "compile", prog["src"]], cwd=ctx.dir("cwd"), env=ctx.env(), timeout=300, check=False)
        line = next((l for l in q.stdout.splitlines() if l.startswith("@@R ")), None)
        if q.returncode != 0 or line is None:
            return dict(crashed=True, rc=q.returncode, err=q.stderr[-500:])
        return json.loads(line[4:])
    compiled = parallel_map(compile_one, nvms, jobs=workers(ctx))
    ncomp = nmem_bad = 0
    for (prog, _), res, fres in zip(nvms, compiled, results):
        if res.get("crashed") or not res.get("compiled"):
            raise InfraError("nvm_probe compile failed on %s although nano_virt compiled it: %s" % (prog["src"], res))
        ncomp += 1
        bad = judge_stages(res)
        if not bad and res["bytes"] != fres["file_bytes"]:
            bad = ["nano_virt --emit-nvm wrote other bytes than nvm_serialize of the in-memory module"]
        if bad:
            nmem_bad += 1
            if nmem_bad <= 5:
                path = ctx.save_replay("format-memory-%s.json" % prog["name"], json.dumps(dict(kind="file", source=prog["src"],
                                       violated=bad, built=res.get("built"), loaded=res.get("loaded")), indent=1))
                ctx.violation("format: in-memory module of the compiler vs its reload: %s (%s)" % (bad[0], prog["name"]), path)
    # real bytes parsed by the spec's Deserialize: drift information only
    r = tlc(ctx, "NvmFormat_MC", cfg="NvmFormat", workers=workers(ctx), timeout=3400, cwd_files=[mc, real],
            constants=fmt_constants(consts, False, "c10_real_files.ndjson"), xss="900m")
    if r.violated:
        raise InfraError("NvmFormat.tla on real files: %s\n%s" % (r.violated, r.out[-2000:]))
    verdict = {v["idx"]: v for v in r.records}
    drift = 0
    for i, res in enumerate(results):
        v = verdict.get(i + 1)
        if v is None:
            raise InfraError("no spec parse for file %d" % i)
        if not (v["ok"] and res.get("file_load_ok") and all(spec_module_dump(v["m"])[k] == res["built"][k] for k in FIELDS)
                and v["reserialized_equal"]):
            drift += 1
    cov["format_real"] = dict(files=len(files), failed=nbad, compiled_in_process=ncomp, in_memory_vs_reload_failed=nmem_bad, parsed_by_spec=len(verdict), drift=drift,
                              bytes=sum(res["size"] for res in results), states=r.distinct, transitions=r.generated)
    return len(files)


def run(ctx):
    probe = ctx.probe("nvm_probe")
    tree = os.path.dirname(os.path.dirname(probe))
    consts, magic = extract_format_constants(tree)
    switches = {f["switch"]: f["id"] for f in findings_for("C10") if f.get("switch")}
    cov = {}
    mc = format_mc(ctx, magic)
    n1 = run_format_generated(ctx, probe, mc, consts, cov)
    nvms, n2 = run_programs(ctx, tree, cov, switches)
    n3 = run_format_real(ctx, probe, mc, consts, nvms, cov)
    cov.update(states=sum(t["distinct"] for t in ctx.tlc_runs), transitions=sum(t["generated"] for t in ctx.tlc_runs),
               traces_validated_against_impl=n1 + n2 + n3, exhaustive=True,
               extracted_constants=dict(consts, Magic=magic))
    return "model_checking", cov, [
        "the wrapper generator of the tree under test writes its C file to /tmp/nanovirt_<pid>.c (hard-coded in wrapper_gen.c)",
        "stdout of the three runners is compared byte for byte, stderr (whose wording differs by design) is not",
        "corpus programs declare main's result in a header comment; NvmRun.tla derives the exit status from it"]


def replay(ctx, path):
    """./check C10 --replay <artifact>: re-run one saved case against the current tree (property only, no suppression)"""
    art = json.load(open(path))
    probe = ctx.probe("nvm_probe")
    tree = os.path.dirname(os.path.dirname(probe))
    d = ctx.dir("replay")
    kind = art.get("kind")
    if kind == "format":
        c = art["case"]
        m = c["m"]
        inp = os.path.join(d, "module.ndjson")
        with open(inp, "w") as f:
            f.write(json.dumps(dict(id=0, calls=c["calls"], code=m["code"], functions=m["functions"], imports=m["imports"],
                                    debug=m["debug"], flags=m["flags"], entry=m["entry"])) + "\n")
        res = json.loads(sh([probe, "build", inp], env=ctx.env()).stdout.splitlines()[0])
        bad = judge_stages(res)
        print(json.dumps(dict(observed=res, violated=bad), indent=1))
        if bad:
            ctx.violation("format: " + bad[0], path)
    elif kind in ("program", "file"):
        prog = dict(name="replay", src=art["source"])
        res = run_one(ctx, tree, prog)
        if "skip" in res:
            raise InfraError(res["skip"])
        if kind == "file":
            r = json.loads(sh([probe, "files", res["nvm"]], env=ctx.env()).stdout.splitlines()[0])
            bad = judge_stages(r) if r.get("file_load_ok") else ["file refused"]
            if not bad and r["bytes"] != r["file_bytes"]:
                bad = ["serialize(deserialize(file)) differs from the file"]
            print(json.dumps(dict(violated=bad), indent=1))
            if bad:
                ctx.violation("format: " + bad[0], path)
        else:
            ref = res["run"]
            for runner in RUNNERS:
                rc, out, err = res[runner]
                print("%-8s exit=%s stdout=%r" % (runner, status_of(rc), out[:300]))
                if (rc, out) != (ref[0], ref[1]):
                    ctx.violation("%s differs from --run: exit %s vs %s, stdout %r vs %r" % (
                        runner, status_of(rc), status_of(ref[0]), out[:100], ref[1][:100]), path)
    else:
        raise InfraError("not a C10 replay artifact: %s" % path)
    return 1 if ctx.violations else 0
