"""C13 — no bytecode input can make the loader, verifier or VM misbehave.

(a) loader arithmetic: NvmLoad.tla with W-bit words (harness/props/c13_loader.py, built by the loader slice)
(b) verifier + VM: spec/VmHostile.tla chooses every hostile function body of a bounded family, verifies it with a
    transcription of verifier.c and executes it with NanoVM!Do; TLC checks `verified => no decode/invalid-opcode trap on a
    swept offset`, frame/ip bounds and the heap invariants, and prints every module; each module is assembled with the
    real encoder and pushed through the real nvm_deserialize -> nvm_verify -> vm_execute (ASan+UBSan build, instruction
    budget from hook H1) in a forked child.
(c) structure-aware mutations of compiler-produced modules: every operand of every instruction, every function-table
    field and the header's entry point / flags set to boundary values, checksum recomputed.
Oracle (the property): the child never dies by a signal / sanitizer report, never hangs without the budget, and an
accepted module never reports a decode / invalid-opcode error at an offset the verifier's sweep walked."""
import json, os, collections, struct, zlib, random, subprocess
from lib.common import *
from lib.nano_ast import pretty
from lib.gen_prog import Gen
from lib import families
from lib.run_prog import Engines, _run
from props import c13_loader

PROP = "C13"
OPSZ = {"U8": 1, "U16": 2, "U32": 4, "I32": 4, "I64": 8, "F64": 8}


def probe_run(ctx, probe, mode_args, stdin_text=None, fuel=3000):
    env = dict(os.environ); env.update(ctx.env({"NANOLANG_VERIF_FUEL": str(fuel), "VM_PROBE_NO_RLIMIT": "1"}))
    p = subprocess.run([probe] + mode_args, input=stdin_text.encode() if stdin_text is not None else None, env=env,
                       stdout=subprocess.PIPE, stderr=subprocess.PIPE, timeout=3600)
    out = []
    for line in p.stdout.decode(errors="replace").splitlines():
        try:
            out.append(json.loads(line))
        except ValueError:
            pass
    return out, p


def judge(ctx, rec, what, stats, save):
    """the property on one real run; returns True when fine"""
    if rec.get("hang"):
        save("hang"); ctx.violation("%s: loader/verifier/VM did not terminate within the wall limit (budget %s)" % (what, "set"), save.path); return False
    if rec.get("sig"):
        stats["signal_%d" % rec["sig"]] += 1
        save("signal"); ctx.violation("%s: process killed by signal %d (crash or sanitizer report) in %s" % (
            what, rec["sig"], "execution" if rec.get("verify") == "ok" else "verifier" if rec.get("load") == "ok" else "loader"), save.path); return False
    if rec.get("verify") == "ok" and rec.get("decode_trap") and rec.get("swept"):
        save("decode"); ctx.violation("%s: verifier accepted the module but the VM reports a decode/invalid-opcode error at swept offset %s (%s)"
                                      % (what, rec.get("trap_off"), rec.get("msg")), save.path); return False
    return True


class Saver:
    def __init__(self, ctx, name, payload):
        self.ctx, self.name, self.payload, self.path = ctx, name, payload, None

    def __call__(self, kind):
        self.path = self.ctx.save_replay("%s_%s.json" % (self.name, kind), json.dumps(self.payload, indent=1))


# ---------------------------------------------------------------- .nvm editing
def crc_fix(b):
    b = bytearray(b)
    struct.pack_into("<I", b, 28, zlib.crc32(bytes(b[32:])) & 0xFFFFFFFF)
    return bytes(b)


def sections(b):
    n = struct.unpack_from("<I", b, 16)[0]
    out = {}
    for i in range(n):
        t, off, sz = struct.unpack_from("<III", b, 32 + 12 * i)
        out[t] = (off, sz)
    return out


def mutants(ctx, b, table, rnd, limit):
    """structure-aware mutations: yields (description, bytes)"""
    sec = sections(b)
    out = []
    BV = {1: [0, 1, 0x7F, 0x80, 0xFF], 2: [0, 1, 0x7FFF, 0x8000, 0xFFFF, 256], 4: [0, 1, 0x7FFFFFFF, 0x80000000, 0xFFFFFFFF, 0xFFFFFFF0, len(b), 65536],
          8: [0, 1, 0x7FFFFFFFFFFFFFFF, 0x8000000000000000, 0xFFFFFFFFFFFFFFFF]}
    # header: entry point, flags
    for v in BV[4]:
        m = bytearray(b); struct.pack_into("<I", m, 12, v); out.append(("entry_point=%#x" % v, crc_fix(m)))
    for v in (0, 1, 2, 7, 0xFFFFFFFF):
        m = bytearray(b); struct.pack_into("<I", m, 8, v); out.append(("flags=%#x" % v, crc_fix(m)))
    # function table fields
    if 3 in sec:
        off, sz = sec[3]
        for f in range(sz // 18):
            base = off + 18 * f
            for name, o, w in (("name_idx", 0, 4), ("arity", 4, 2), ("code_offset", 6, 4), ("code_length", 10, 4), ("local_count", 14, 2), ("upvalue_count", 16, 2)):
                for v in BV[w]:
                    m = bytearray(b); struct.pack_into("<I" if w == 4 else "<H", m, base + o, v)
                    out.append(("fn[%d].%s=%#x" % (f, name, v), crc_fix(m)))
    # operands of every instruction (linear sweep with the extracted opcode table) + opcode substitution
    if 1 in sec:
        off, sz = sec[1]
        pos = off
        while pos < off + sz:
            op = b[pos]
            ent = table.get(op)
            if not ent:
                break
            p2 = pos + 1
            for kind in ent["kinds"]:
                w = OPSZ[kind]
                for v in BV[w]:
                    m = bytearray(b); m[p2:p2 + w] = (v & ((1 << (8 * w)) - 1)).to_bytes(w, "little")
                    out.append(("code@%d %s operand %s=%#x" % (pos - off, ent["name"], kind, v), crc_fix(m)))
                p2 += w
            for newop in rnd.sample(sorted(table), 3) + [0xFF, 0xB2]:
                m = bytearray(b); m[pos] = newop
                out.append(("code@%d opcode %#x->%#x" % (pos - off, op, newop), crc_fix(m)))
            pos = p2
    rnd.shuffle(out)
    return out[:limit]


def run(ctx):
    stats = collections.Counter(); samples = []
    # (a) loader
    lb = c13_loader.loader_bounds(ctx)
    stats.update({k: v for k, v in lb.items() if isinstance(v, int)})
    # (b) model
    quick = ctx.tier == "quick"
    r = tlc(ctx, "VmHostile", timeout=3000, constants={"MaxLen": "2" if quick else "3", "Fuel": "10" if quick else "12"})
    if r.violated:
        raise InfraError("VmHostile.tla violates %s on the specification itself:\n%s" % (r.violated, "\n".join(r.trace[-3:])))
    bodies = {}
    for x in r.records:
        key = json.dumps(x["body"], sort_keys=True)
        b = bodies.setdefault(key, {"body": x["body"], "verified": x["verified"], "outcomes": set()})
        b["outcomes"].add(x["outcome"])
    tree = ctx.build("asan")
    probe = ctx.probe("vm_probe", "asan")
    callee = {"name": 1, "arity": 2, "nloc": 3, "nup": 0, "code": [["LOAD_LOCAL", 0], ["RET"]]}
    lines, index = [], {}
    for k, (key, b) in enumerate(sorted(bodies.items())):
        mid = "h%d" % k
        index[mid] = b
        code = [[i["op"]] + list(i["a"]) for i in b["body"]]
        lines.append(json.dumps({"id": mid, "strings": ["main", "f"], "entry": 0,
                                 "funcs": [{"name": 0, "arity": 0, "nloc": 2, "nup": 0, "code": code}, callee]}))
    recs, p = probe_run(ctx, probe, ["build", "hex"], "\n".join(lines) + "\n")
    if len(recs) != len(lines):
        raise InfraError("vm_probe answered %d of %d modules\n%s" % (len(recs), len(lines), p.stderr.decode(errors="replace")[-1500:]))
    for rec in recs:
        b = index[rec["id"]]
        stats["hostile_modules"] += 1
        sv = Saver(ctx, rec["id"], {"module": b["body"], "spec_verified": b["verified"], "spec_outcomes": sorted(b["outcomes"]), "real": rec})
        if not judge(ctx, rec, "hostile module %s" % rec["id"], stats, sv):
            continue
        spec_v = b["verified"] == "yes"
        if (rec.get("verify") == "ok") != spec_v:
            stats["verifier_verdict_differs_from_transcription(drift)"] += 1
        real = rec.get("exec")
        cls = {"ok": {"ok"}, "fuel": {"fuel"}, "err": {o for o in b["outcomes"] if o.startswith("err:")}, "none": {"refused"}}.get(real, set())
        if cls & b["outcomes"] or "unmodelled" in b["outcomes"]:
            stats["outcome_in_predicted_set"] += 1
        else:
            stats["outcome_not_predicted(info)"] += 1
        if len(samples) < 3 and spec_v:
            samples.append({"module": [[i["op"]] + list(i["a"]) for i in b["body"]], "verified": rec.get("verify"), "exec": real, "msg": rec.get("msg", "")[:60],
                            "spec_outcomes": sorted(b["outcomes"])})
    # (b2) resource family: verified, import-free modules that stress recursion and growth inside the VM
    def loop_mod(mid, n, body_pre, body_post):
        """main: local1 = n; do { body_pre } while (--local1); body_post; return"""
        sz = {"LOAD_LOCAL": 3, "STORE_LOCAL": 3, "ARR_LITERAL": 4, "PUSH_I64": 9, "SUB": 1, "DUP": 1, "TUPLE_NEW": 3, "POP": 1, "PUSH_VOID": 1, "PRINTLN": 1, "CALL": 5}
        tail = [["LOAD_LOCAL", 1], ["PUSH_I64", 1], ["SUB"], ["DUP"], ["STORE_LOCAL", 1]]
        back = sum(sz[i[0]] for i in body_pre + tail)
        code = [["PUSH_I64", n], ["STORE_LOCAL", 1]] + body_pre + tail + [["JMP_TRUE", -back]] + body_post + [["PUSH_I64", 0], ["RET"]]
        return {"id": mid, "strings": ["main"], "entry": 0, "funcs": [{"name": 0, "arity": 0, "nloc": 2, "nup": 0, "code": code}]}
    nest = [["LOAD_LOCAL", 0], ["ARR_LITERAL", 7, 1], ["STORE_LOCAL", 0]]
    res_mods = [loop_mod("res_deep_release", 300000, nest, [["PUSH_VOID"], ["STORE_LOCAL", 0]]),
                loop_mod("res_deep_print", 300000, nest, [["LOAD_LOCAL", 0], ["PRINTLN"]]),
                loop_mod("res_stack_growth", 200000, [["PUSH_I64", 7], ["DUP"], ["DUP"]], []),
                loop_mod("res_big_tuples", 2000, [["TUPLE_NEW", 65535], ["POP"]], []),
                {"id": "res_unbounded_recursion", "strings": ["main"], "entry": 0,
                 "funcs": [{"name": 0, "arity": 0, "nloc": 1, "nup": 0, "code": [["CALL", 0], ["RET"]]}]}]
    plain_probe = ctx.probe("vm_probe", "plain")
    recs, p = probe_run(ctx, plain_probe, ["build"], "\n".join(json.dumps(m) for m in res_mods) + "\n", fuel=50000000)
    kf = {f["id"]: f for f in findings_for(PROP)}
    for rec in recs:
        stats["resource_modules"] += 1
        known = [fid for fid, f in kf.items() if rec["id"] in f.get("match", {}).get("modules", []) and rec.get("sig") in f.get("match", {}).get("signals", [])]
        if known:
            ctx.known(known[0], "module %s: killed by signal %s" % (rec["id"], rec.get("sig"))); stats["known:" + known[0]] += 1
            continue
        sv = Saver(ctx, rec["id"], {"module": [m for m in res_mods if m["id"] == rec["id"]][0], "real": rec})
        judge(ctx, rec, "resource module %s" % rec["id"], stats, sv)
    # (c) mutations of compiler modules
    eng = Engines(ctx)
    isa = ctx.probe("isa_probe", "plain")
    tab = json.loads(sh([isa, "table"], env=ctx.env()).stdout)
    entries = tab.get("table", tab) if isinstance(tab, dict) else tab
    table = {}
    for e in entries:
        if isinstance(e, dict) and e.get("valid", True) and e.get("name"):
            table[e.get("opcode", e.get("byte"))] = {"name": e["name"], "kinds": e.get("kinds", [])}
    progs = dict(list(families.all_families().items())[:: (6 if quick else 2)])
    for k in range(3 if quick else 20):
        progs["gen%d" % k] = Gen(ctx.seed * 3000017 + k).program()
    # modules whose instructions work on temporaries and on every kind of heap object (the C14 families): run as compiled and mutated
    import props.c14 as c14
    heapy = dict(c14.alias_family()); heapy.update(c14.churn_family(3))
    for k in sorted(heapy):
        progs["heap_" + k] = heapy[k]
    rnd = random.Random(ctx.seed)
    files, desc = [], {}
    for pid, pr in progs.items():
        d = eng.write("m_" + pid, pretty(pr))
        e = eng.emit(d)
        path = os.path.join(d, "p.nvm")
        if not os.path.exists(path):
            continue
        b = open(path, "rb").read()
        for j, (what, mb) in enumerate([("as compiled", b)] + list(mutants(ctx, b, table, rnd, (150 if not pid.startswith("heap_") else 20) if quick else 1500))):
            fp = os.path.join(d, "mut%d.nvm" % j)
            open(fp, "wb").write(mb)
            files.append(fp); desc[fp] = (pid, what)
    for i in range(0, len(files), 400):
        chunk = files[i:i + 400]
        recs, p = probe_run(ctx, probe, ["files"] + chunk)
        for rec in recs:
            pid, what = desc[rec["id"]]
            stats["mutants"] += 1
            stats["mutant_" + ("rejected_by_loader" if rec.get("load") != "ok" else "rejected_by_verifier" if rec.get("verify") != "ok" else "executed_" + str(rec.get("exec")))] += 1
            sv = Saver(ctx, "mut_%s_%d" % (pid, stats["mutants"]), {"program": pid, "mutation": what, "real": rec, "nvm_hex": open(rec["id"], "rb").read().hex()})
            judge(ctx, rec, "mutant of %s (%s)" % (pid, what), stats, sv)
    cov = dict(evaluations=stats["hostile_modules"] + stats["mutants"] + lb.get("loader_loads", 0), distinct_nontrivial=stats["hostile_modules"] + stats["mutants"],
               samples=samples or [{"note": "none"}], classes={k: v for k, v in stats.items()},
               model=dict(states=r.distinct, transitions=r.generated, bodies=len(bodies)),
               rule="VmHostile.tla: every function body of <= MaxLen instructions over a 23-instruction hostile alphabet (TLC-enumerated); mutants: every operand / function-table field / header field of compiler modules set to boundary values with the checksum recomputed (seeded sample per module)")
    return "exploration", cov, ["process safety is decided by ASan/UBSan, signals and the instruction budget (hook H1) on spec-generated inputs",
                                "the verifier/VM agreement clause and frame/ip/heap invariants are model-checked on VmHostile.tla"]


def replay(ctx, path):
    rep = json.load(open(path)); print(json.dumps({k: v for k, v in rep.items() if k != "nvm_hex"}, indent=1)); return 0
