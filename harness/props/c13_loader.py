"""C13, loader part - for every byte string, including well-checksummed hostile section
directories, nvm_deserialize only reads inside the file (and ends).

    from props.c13_loader import loader_bounds
    counts = loader_bounds(ctx)          # records ctx.violation / ctx.known itself

Oracle: spec/NvmLoad.tla.
  * NvmLoadDir      (W = 8, every <type, off, sz>, checks as written)     -> TLC exhibits the wrap of
                                                                             `sec_offset + sec_size > size`
  * NvmLoadDirStr   (section check repaired, string check as written)     -> TLC exhibits the wrap of `pos + slen > sec_size`
  * NvmLoadDirSafe  (both repaired, hooks/fix-loader-section-bounds.patch) -> ReadsInBounds, Terminates, AllOrNothing hold
  * NvmLoadDir32    (W = 32, boundary words)                               -> ~2 700 real hostile files, each with the
                                                                             model's verdict as written / repaired
The W = 8 counterexamples are concretised at W = 32 (checksum recomputed by the real nvm_crc32), all files are
loaded by the real loader in a forked child of the `asan` build, and the stage events of hook H3 are validated
against NvmLoadTrace (repaired spec first; a load only the as-written spec explains, ending in its undefined
state, is the known finding).  Python builds, runs, converts and compares."""
import json
import os

from lib.common import NCPU, InfraError, findings_for, log, parallel_map, sh, sha, tlc
from props.nvmload_common import PROBE, constants, hook_present, ndjson, run_trace, split_trace, workers

BIG = 1 << 32


def _le32(v):
    return [v & 255, (v >> 8) & 255, (v >> 16) & 255, (v >> 24) & 255]


def _concretise(rec, consts):
    """A W = 8 counterexample (entries with 8-bit off/sz, payload word x) -> candidate W = 32 files.
    A word v >= 2^(W-1) is mapped to 2^32 - 2^W + v (same distance from the wrap point); since the
    sum of two mapped words wraps differently, every combination is offered and the W = 32 model
    (NvmLoadTraceAsWritten on the recorded load) decides which one reproduces the out-of-bounds read."""
    w = rec["w"]
    half, top = 1 << (w - 1), 1 << w

    def up(v):
        return v if v < half else BIG - top + v
    out = []
    hs, es = int(consts["HeaderSize"]), int(consts["SecEntrySize"])
    base = list(rec["bytes"])
    n = rec["nsec"]
    for mask in range(1, 8):
        b = list(base)
        for i, e in enumerate(rec["entries"]):
            p = hs + i * es
            off = up(e["off"]) if mask & 1 else e["off"]
            sz = up(e["sz"]) if mask & 2 else e["sz"]
            b[p + 4:p + 8] = _le32(off)
            b[p + 8:p + 12] = _le32(sz)
        x = up(rec["x"]) if mask & 4 else rec["x"]
        p = hs + n * es
        b[p:p + 4] = _le32(x)
        if b != base and b not in [o for o in out]:
            out.append(b)
    return out


def _witness_cases():
    """The witness of every known finding of the loader is re-run first (DESIGN 5.2)."""
    out = []
    for f in findings_for("C13"):
        m = f.get("match", {})
        if m.get("component") == "loader" and "witness_bytes" in m:
            out.append(dict(id="witness-" + f["id"], bytes=m["witness_bytes"], fixcrc=True, finding=f["id"], cls=m.get("class")))
    return out


def _classify(case):
    """Which wrap does the model blame for this file?  (None = the as-written model predicts no out-of-bounds read.)"""
    if case["asWritten"]["v"] != "undefined":
        return None
    return "strlen-wrap" if case["secOnly"]["v"] == "undefined" else "section-wrap"


def loader_bounds(ctx, quick=None):
    quick = (ctx.tier == "quick") if quick is None else quick
    w = workers(ctx)
    tree = ctx.build("asan", targets=("nano_vm",))
    probe = ctx.probe(PROBE, "asan")
    consts, raw = constants(ctx, probe)
    known = {f["match"]["class"]: f for f in findings_for("C13")
             if f.get("match", {}).get("component") == "loader" and "class" in f.get("match", {})}
    cov = dict(loader_tlc={}, loader_known=[])

    # ---- 1. the design, model-checked -----------------------------------------------------------------
    full = {"Full": "FALSE" if quick else "TRUE"}
    r_sec = tlc(ctx, "NvmLoad", "NvmLoadDir", workers=w, constants=dict(consts, **full), dfs_queue=True)
    r_str = tlc(ctx, "NvmLoad", "NvmLoadDirStr", workers=w, constants=dict(consts, **full), dfs_queue=True)
    r_safe = tlc(ctx, "NvmLoad", "NvmLoadDirSafe", workers=w, constants=dict(consts, **full), timeout=1800)
    if r_safe.violated:
        # the repaired checks are ours: if they do not hold in the model, the model or the proposed fix is wrong
        raise InfraError("NvmLoadDirSafe violates %s: the repaired bounds checks are not sufficient in the model\n%s"
                         % (r_safe.violated, "\n".join(r_safe.trace[-2:])[:3000]))
    cex = []
    for name, r in (("section", r_sec), ("strlen", r_str)):
        recs = [x for x in r.records if x.get("k") == "oob"]
        if r.violated == "ReadsInBounds" and recs:
            cex.append((name, recs[0]))
        elif r.violated:
            raise InfraError("%s: unexpected violation %s" % (name, r.violated))
    cov["loader_tlc"] = dict(asWritten_section=dict(violated=r_sec.violated, distinct=r_sec.distinct),
                             asWritten_strlen=dict(violated=r_str.violated, distinct=r_str.distinct),
                             repaired=dict(violated=r_safe.violated, distinct=r_safe.distinct, generated=r_safe.generated,
                                           exhaustive=True, W=8, every_type_off_sz=not quick))
    cov["loader_model_counterexamples"] = [dict(check=n, entries=c["entries"], x=c["x"], oob_reads=c["reads"]) for n, c in cex]

    # ---- 2. hostile files of the real machine, with the model's verdicts ------------------------------
    r32 = tlc(ctx, "NvmLoad", "NvmLoadDir32", workers=w, constants=dict(consts, **full))
    if r32.violated:
        raise InfraError("NvmLoadDir32 (repaired checks, W = 32) violates %s" % r32.violated)
    cases, seen = [], set()
    for rec in r32.records:
        if rec.get("k") != "hostile":
            continue
        h = sha(bytes(rec["bytes"]))
        if h in seen:
            continue
        seen.add(h)
        rec["id"] = "h%04d" % len(cases)
        cases.append(rec)
    if len(cases) < 100:
        raise InfraError("NvmLoadDir32 printed only %d hostile files" % len(cases))
    cexcases = []
    for name, c in cex:
        for k, b in enumerate(_concretise(c, consts)):
            cexcases.append(dict(id="cex-%s-%d" % (name, k), bytes=b, fixcrc=True, cex=name,
                                 cls="section-wrap" if name == "section" else "strlen-wrap"))
    wit = _witness_cases()
    work = ctx.dir("c13loader")
    hooked = hook_present(tree)
    allcases = wit + cexcases + cases
    nchunks = max(1, min(NCPU, len(allcases) // 100))
    trace = os.path.join(work, "hostile.trace")

    def run_chunk(k):
        d = os.path.join(work, "chunk%d" % k)
        os.makedirs(d, exist_ok=True)
        cf = os.path.join(d, "cases.ndjson")
        with open(cf, "w") as f:
            for c in allcases[k::nchunks]:
                f.write(json.dumps(dict(id=c["id"], bytes=c["bytes"], fixcrc=bool(c.get("fixcrc")))) + "\n")
        return sh([probe, "hostile", cf, d, os.path.join(d, "trace") if hooked else "-"], env=ctx.env(), timeout=1800)
    outs = parallel_map(run_chunk, range(nchunks))
    res = {}
    with open(trace, "w") as tf:
        for k, p in enumerate(outs):
            res.update({x["id"]: x for x in ndjson(p.stdout) if x.get("k") == "hostile"})
            tp = os.path.join(work, "chunk%d" % k, "trace")
            if os.path.exists(tp):
                tf.write(open(tp).read())
    if len(res) != len(allcases):
        raise InfraError("hostile probe answered %d of %d cases\n%s" % (len(res), len(allcases), outs[0].stderr[-2000:]))

    # ---- 3. trace validation: which loads does the repaired spec explain, which only the as-written one
    explained_safe, explained_asw, unexplained = set(), set(), {}
    undefined_ids = set()
    if hooked:
        end, rej, und, _ = run_trace(ctx, "NvmLoadTrace", trace, consts)
        if end is None:
            raise InfraError("NvmLoadTrace did not reach the end of the hostile trace")
        loads, order = split_trace(trace)
        rejected = {x["id"]: x for x in rej}
        explained_safe = set(order) - set(rejected)
        if rejected:
            sub = os.path.join(work, "hostile.rejected.trace")
            with open(sub, "w") as f:
                for i in order:
                    if i in rejected:
                        f.writelines(loads[i])
            end2, rej2, und2, _ = run_trace(ctx, "NvmLoadTraceAsWritten", sub, consts)
            if end2 is None:
                raise InfraError("NvmLoadTraceAsWritten did not reach the end of the trace")
            r2 = {x["id"]: x for x in rej2}
            undefined_ids = {x["id"] for x in und2}
            explained_asw = set(rejected) - set(r2)
            unexplained = r2
        cov["loader_traces"] = dict(loads=len(order), explained_by_repaired_spec=len(explained_safe),
                                    explained_only_as_written=len(explained_asw), unexplained=len(unexplained))

    # ---- 4. verdicts ------------------------------------------------------------------------------------
    crashes, mismatches, confirmed = 0, [], {"section-wrap": 0, "strlen-wrap": 0}
    listed = {"crash": 0, "trace": 0}        # at most 6 VIOLATION lines of a kind, the rest is counted
    by_id = {c["id"]: c for c in cases}
    extra = {c["id"]: c for c in wit + cexcases}
    samples = []
    for cid, x in res.items():
        c = by_id.get(cid)
        crashed = x["outcome"] in ("signal", "timeout", "exit")
        if c is not None:
            cls = _classify(c)
            allowed = {c[m]["v"] for m in ("asWritten", "safe", "secOnly")} - {"undefined", "nonterm"}
        else:                                      # witness / concretised counterexample: the model's verdict is the trace run
            cls = extra[cid]["cls"]
            allowed = {"reject", "accept"}
        if crashed:
            crashes += 1
            what = "%s: loader %s (signal %s) %s" % (cid, x["outcome"], x["signal"], x["report"][:160])
            explained = (not hooked) or cid in explained_asw and cid in undefined_ids
            if cls in known and cls is not None and explained:
                confirmed[cls] += 1
                f = known[cls]
                ctx.known(f["id"], "%s [%d-byte file, %s]" % (f["summary"][:140], len((c or extra[cid])["bytes"]), x["report"][:90]))
                if len(samples) < 4:
                    samples.append(dict(id=cid, outcome=x["outcome"], signal=x["signal"], report=x["report"][:120], finding=f["id"],
                                        bytes=(c or extra[cid])["bytes"][:80]))
            else:
                listed["crash"] += 1
                if listed["crash"] <= 6:
                    rp = ctx.save_replay("loader-%s.nvm" % cid, src=x["path"])
                    ctx.violation("C13 loader: nvm_deserialize crashed on a well-checksummed file that is not in a known class: " + what, rp)
        else:
            if x["outcome"] not in allowed:
                mismatches.append(dict(id=cid, outcome=x["outcome"], model=sorted(allowed)))
            if hooked and cid in unexplained:
                listed["trace"] += 1
            if hooked and cid in unexplained and listed["trace"] <= 6:
                rp = ctx.save_replay("loader-trace-%s.ndjson" % cid, content="".join(split_trace(trace)[0][cid]))
                ctx.violation("C13 loader: stage events of load %s are explained neither by the repaired nor by the as-written "
                              "specification: %s" % (cid, json.dumps(unexplained[cid])[:600]), rp)
    for cls, f in known.items():
        if confirmed.get(cls, 0) == 0:
            log("known finding %s did not show on this tree (stale entry or fix applied)" % f["id"])
    for wcase in wit:
        x = res[wcase["id"]]
        cov.setdefault("loader_witnesses", []).append(dict(finding=wcase["finding"], outcome=x["outcome"], signal=x["signal"],
                                                           report=x["report"][:120]))
    if mismatches:
        log("loader verdicts outside the model's set (not a safety violation, recorded): %s" % mismatches[:5])
    cov.update(loader_files=len(res), loader_files_from_model=len(cases), loader_crashes=crashes,
               loader_crashes_by_class=confirmed, loader_verdict_mismatches=len(mismatches),
               loader_model_predicts_oob=sum(1 for c in cases if _classify(c)),
               loader_samples=samples or [dict(id=c["id"], bytes=c["bytes"][:80], model=c["asWritten"], real=res[c["id"]]["outcome"])
                                          for c in cases[:3]],
               loader_hook_present=hooked, loader_unexplained=dict(listed))
    return cov
