"""C05 — ill-formed programs are never turned into a runnable artifact.

spec/NanoType.tla states the static rules; seeds are well-typed programs (families + seeded generator); lib/mutate.py
applies single-point mutations, each *meant* to break one named rule; TLC judges every mutant with NanoType
(what="type") and only mutants that really break the intended rule are used.  Every such mutant is given to the three
tools (nanoc -o, nano_virt --run, nano_virt --emit-nvm -o): the tool must exit non-zero, print a diagnostic, leave no
output file and run nothing.  Driver.tla carries the model-level statement (RejectQuiet, FailExit) and every nanoc
transcript of a rejected mutant is validated against it (no `Transpiling`, no test line after a failed type check)."""
import json, os, collections, random
from lib.common import *
from lib.nano_ast import *
from lib.gen_prog import Gen
from lib import families
from lib.mutate import mutants
from lib.sem_common import *
from lib.shadow_common import parse_transcript
from lib.run_prog import Engines, _run

PROP = "C05"
MARK = "@@RAN@@"


def seeds(ctx):
    progs = {}
    fams = families.all_families()
    keys = sorted(fams)
    for k in keys[:: (3 if ctx.tier == "quick" else 1)]:
        progs["fam_" + k] = fams[k]
    for k in keys:
        if k.startswith("extern_") or k.startswith("reuse_mut") or k.startswith("fnval_order_callees_last"):     # seeds tied to particular rules are always in
            progs["fam_" + k] = fams[k]
    for k in range(6 if ctx.tier == "quick" else 30):
        progs["gen_%d_%d" % (ctx.seed, k)] = Gen(ctx.seed * 2000003 + k).program()
    return progs


def build_mutants(ctx, per_op):
    rnd = random.Random(ctx.seed)
    sd = seeds(ctx)
    # every seed prints a marker first, so that "executes nothing" is observable
    allm = {}
    for pid, p in sd.items():
        q = json.loads(json.dumps(p))
        for f in q["funcs"]:
            if f["n"] == "main":
                f["body"].insert(0, Println(S(MARK)))
        if any(f["n"] == "t" for f in q["funcs"]) and not any(sh["fn"] == "t" for sh in q["shadows"]):
            # a shadow block with content, so that the static rules are also exercised inside shadow blocks
            q["shadows"].append({"fn": "t", "b": [Let("r", "int", Call("t", I(3))), Assert(Bin("==", V("r"), I(3)))]})
        for j, m in enumerate(mutants(q, rnd, per_op)):
            allm["%s.m%d" % (pid, j)] = m
    return sd, allm


def judge_mutants(ctx, allm):
    recs, r = prescribe(ctx, [job(mid, annotate_types(m["prog"]), what="type") for mid, m in allm.items()])
    eff = {mid: m for mid, m in allm.items() if m["rule"] in recs[mid]["violates"]}
    return eff, recs, r


def run_tools(ctx, eng, mid, src):
    d = eng.write(mid, src)
    res = {}
    exe = os.path.join(d, "p.exe")
    res["nanoc"] = _run([os.path.join(eng.bin, "nanoc_c"), "p.nano", "-o", "p.exe", "--verbose"], d, eng.env(), 300)
    res["nanoc"]["artifact"] = os.path.exists(exe)
    res["run"] = _run([os.path.join(eng.bin, "nano_virt"), "p.nano", "--run"], d, eng.env(), 60)
    res["run"]["artifact"] = False
    nvm = os.path.join(d, "p.nvm")
    res["emit"] = _run([os.path.join(eng.bin, "nano_virt"), "p.nano", "--emit-nvm", "-o", "p.nvm"], d, eng.env(), 60)
    res["emit"]["artifact"] = os.path.exists(nvm)
    return res


def run(ctx):
    r0 = tlc(ctx, "Driver", timeout=600)
    if r0.violated:
        raise InfraError("Driver.tla violates %s" % r0.violated)
    sd, allm = build_mutants(ctx, 3 if ctx.tier == "quick" else 8)
    eff, recs, r1 = judge_mutants(ctx, allm)
    # seeds must be well typed for the spec (sanity of the catalogue)
    srec, _ = prescribe(ctx, [job(pid, annotate_types(json.loads(json.dumps(p))), what="type") for pid, p in sd.items()])
    bad_seeds = [pid for pid, x in srec.items() if not x["wt"]]
    if bad_seeds:
        raise InfraError("seed programs are not well typed for NanoType.tla: %s" % bad_seeds[:3])
    eng = Engines(ctx)
    results = dict(parallel_map(lambda mid: (mid, run_tools(ctx, eng, mid, pretty(eff[mid]["prog"]))), list(eff)))
    stats = collections.Counter(); samples = []; trace = []; seen = set()
    stats["mutants_generated"] = len(allm); stats["mutants_breaking_intended_rule"] = len(eff)
    kf = findings_for(PROP)
    for mid, res in results.items():
        m = eff[mid]
        src = pretty(m["prog"])
        seen.add(sha(src))
        stats["rule:" + m["rule"]] += 1
        problems = []
        for tool, x in res.items():
            out = x["out"].decode(errors="replace"); err = x["err"].decode(errors="replace")
            if x["rc"] == 0: problems.append("%s exits 0" % tool)
            elif x["rc"] is None: problems.append("%s ended by %s" % (tool, "timeout" if x["timeout"] else "signal %s" % x["sig"]))
            if x["artifact"]: problems.append("%s wrote its output file" % tool)
            if MARK in out: problems.append("%s executed the program" % tool)
            if x["rc"] not in (0, None) and not (err.strip() or "rror" in out): problems.append("%s gave no diagnostic" % tool)
        if not problems:
            stats["rejected_by_all_tools"] += 1
            if len(samples) < 3:
                samples.append({"mutant": mid, "rule": m["rule"], "what": m["what"], "nanoc_exit": res["nanoc"]["rc"],
                                "diagnostic": (res["run"]["err"].decode(errors="replace").strip().splitlines() or [""])[0][:120]})
            ev, _ = parse_transcript((res["nanoc"]["out"] + res["nanoc"]["err"]).decode(errors="replace"))
            if any(e["e"] == "tc_failed" for e in ev):
                trace += [{"e": "Reset", "wt": False, "sh": [], "missing": 0}] + ev + [{"e": "end", "exit": res["nanoc"]["rc"], "artifact": "none", "warned": False}]
            continue
        # known finding? matched by the rule and the syntactic context of the mutation
        hit = None
        for f in kf:
            mt = f.get("match", {})
            if m["rule"] in mt.get("rules", []) and __import__("re").search(mt.get("what_regex", "."), m["what"]):
                hit = f["id"]
        if hit:
            ctx.known(hit, "%s (%s): %s" % (mid, m["what"], "; ".join(problems)[:160])); stats["known:" + hit] += 1
            continue
        rep = {"mutant": mid, "rule": m["rule"], "mutation": m["what"], "problems": problems, "source": src,
               "tools": {t: {"exit": x["rc"], "stderr": x["err"].decode(errors="replace")[-600:], "stdout": x["out"].decode(errors="replace")[-300:]} for t, x in res.items()}}
        ctx.save_replay(mid + ".nano", src)
        ctx.violation("%s breaks rule `%s` (%s) but: %s" % (mid, m["rule"], m["what"], "; ".join(problems)), ctx.save_replay(mid + ".json", json.dumps(rep, indent=1)))
    validated = 0
    if trace:
        tf = os.path.join(ctx.scratch, "driver_trace.ndjson")
        open(tf, "w").write("".join(json.dumps(e) + "\n" for e in trace))
        rt = tlc(ctx, "DriverTrace", workers=1, env={"TRACE": tf}, timeout=600)
        post = [x for x in rt.records if "maxl" in x]
        if rt.violated or not post or post[-1]["maxl"] != len(trace) + 1:
            rt = tlc(ctx, "DriverTrace", workers=1, env={"TRACE": tf}, timeout=600)
            post = [x for x in rt.records if "maxl" in x]
            if rt.violated or not post or post[-1]["maxl"] != len(trace) + 1:
                ctx.violation("a nanoc transcript of a rejected program is not a behaviour of Driver.tla (%s, accepted prefix %s of %d)"
                              % (rt.violated, post[-1]["maxl"] - 1 if post else "?", len(trace)), ctx.save_replay("driver_trace.ndjson", src=tf))
        else:
            validated = sum(1 for e in trace if e["e"] == "Reset")
    # the affine discipline of `resource struct` values (NanoAffine.tla): seeds, TLC-confirmed rule-breaking mutants, same three tools
    from props import c05_affine
    astats, asamples = c05_affine.run_affine(ctx)
    for k, v in astats.items():
        if isinstance(v, (int, float)):
            stats["affine:" + k] = v
    cov_affine = {"stats": astats, "samples": asamples[:3]}
    cov = dict(affine=cov_affine, states=r0.distinct + r1.distinct, transitions=r0.generated + r1.generated, traces_validated_against_impl=validated,
               samples=samples or [{"note": "none"}], evaluations=3 * len(results), distinct_nontrivial=len(seen), classes=dict(stats),
               rule="seeds (families + generator, all WT by NanoType.tla) x single-point mutations (operand, argtype, arity +-1, unknown / out-of-scope / other function's name, set of immutable local or parameter, wrong let / return type, dropped return, non-bool condition, unknown field / variant, tuple index); a mutant counts when TLC confirms it breaks the intended rule; distinct by source hash")
    return "model_checking", cov, list(c05_affine.ASSUMPTIONS) + ["NanoType.tla and NanoAffine.tla are the definition of `violates a static rule`",
                                   "a diagnostic is any non-empty stderr / an `Error` line"]


def replay(ctx, path):
    rep = json.load(open(path)); print(json.dumps({k: v for k, v in rep.items() if k != "source"}, indent=1)); return 0
