"""GX — generator exploration (developer entry `./check GX [--tier thorough]`).

For a seed range and every feature flag of lib/gen_gx.py (alone and in random pairs / triples) programs are generated,
NanoType / NanoSem (TLC, job kind "sound") say whether a program is well typed and what its run must look like, and the
program is pushed through every engine and every binding the framework has:

    native (nanoc_c + run)   vm (nano_virt --run)   nano_vm (emitted module)   interp (the compile-time evaluator: main's body
    called from a shadow block)   asan (the native pipeline under ASan+UBSan, as C20)   h1 (VM reference-count trace against
    NanoVMTrace.tla, as C14)   h7 (VM instruction trace against NanoVMVal.tla, as C02V)

Every disagreement is classified: explained by a listed finding (deviation switches first, as C01/C02/C03 do, then the
syntactic shapes of known_findings.d/GX.json) or NEW; NEW ones are reduced (lib/reduce.py) and reported as violations.
The spec is the oracle; Python generates, moves data and compares.

Environment: VERIF_ONLY=<regex> restricts the corpus to matching program ids, GX_FEATURES=a,b restricts the feature sets,
GX_N=<n> programs per feature set, GX_SEED0=<k> first seed, VERIF_SPEC_DEV=<dir> overlays .tla files for the TLC runs,
GX_STAGES=native,vm,nano_vm,interp,asan,h1,h7 selects stages, GX_NOREDUCE=1 skips reduction.
"""
import collections, copy, glob, json, os, random, re, time, zlib
from lib.common import *
from lib.nano_ast import *
from lib.gen_prog import Gen, GX_FEATURES
from lib import sem_common
from lib.sem_common import job, observe, expected, matches, compile_class, vm_class, ENGINE_SWITCHES, known_switches
from lib.run_prog import Engines, _run
from lib.reduce import reduce_prog
from lib import gx_shapes
from lib import families_gx

PROP = "GX"
ALL_STAGES = ("native", "vm", "nano_vm", "interp", "asan", "iasan", "h1", "h7")
DOCUMENTED = ("ok", "fault:assert", "fault:bounds")       # x / 0 and the call-depth limit differ between engines by design: not compared


# ---------------------------------------------------------------------------------------------- corpus
def feature_sets(ctx):
    want = [f for f in os.environ.get("GX_FEATURES", "").split(",") if f]
    singles = [(f,) for f in GX_FEATURES if not want or f in want]
    rnd = random.Random(ctx.seed * 7919 + 13)
    combos = []
    pool = [f for f in GX_FEATURES if not want or f in want] + ["maps", "fnvals"]
    n_combo = (8 if ctx.tier == "quick" else 30) if len(pool) > 3 else 0
    while len(combos) < n_combo:
        c = tuple(sorted(rnd.sample(pool, rnd.choice([2, 2, 3]))))
        if c not in combos and any(f in GX_FEATURES for f in c):
            combos.append(c)
    return singles + combos


def corpus(ctx):
    n = int(os.environ.get("GX_N", "0")) or (10 if ctx.tier == "quick" else 20)
    seed0 = int(os.environ.get("GX_SEED0", "0")) or ctx.seed * 100003
    progs, feats = {}, {}
    avoid = tuple(a for a in os.environ.get("GX_AVOID", "").split(",") if a)
    for fs in feature_sets(ctx):
        for k in range(n):
            # half of the programs of a feature set keep away from the shapes of listed findings so that what lies behind them is reached
            av = gx_shapes.AVOIDABLE if k % 2 == 1 else avoid
            pid = "gx_%s_%d%s" % ("+".join(fs), seed0 + k, "a" if k % 2 == 1 else "")
            f = {x: True for x in fs}
            f["avoid"] = av
            progs[pid] = Gen(seed0 + k + zlib.crc32("+".join(fs).encode()) % 1000 * 1000, features=f).program()
            feats[pid] = fs
    for k, p in families_gx.gx_families().items():
        progs["fam_" + k] = p
        feats["fam_" + k] = ("family",)
    if os.environ.get("VERIF_ONLY"):
        progs = {k: v for k, v in progs.items() if re.search(os.environ["VERIF_ONLY"], k)}
    return progs, feats


# ---------------------------------------------------------------------------------------------- TLC
def prescribe(ctx, jobs, fuel=60000, timeout=2400):
    """sem_common.prescribe with an optional overlay of specification files under development (VERIF_SPEC_DEV)"""
    if not jobs:
        return {}, None
    if len(jobs) > 1500:
        recs, tot = {}, None
        for i in range(0, len(jobs), 1500):
            r1, t1 = prescribe(ctx, jobs[i:i + 1500], fuel, timeout)
            recs.update(r1)
            if tot is None: tot = t1
            else: tot.generated += t1.generated; tot.distinct += t1.distinct
        return recs, tot
    jf = os.path.join(ctx.scratch, "gxjobs.%d.ndjson" % len(ctx.tlc_runs))
    with open(jf, "w") as f:
        for j in jobs:
            f.write(json.dumps(j) + "\n")
    dev = os.environ.get("VERIF_SPEC_DEV")
    overlay = glob.glob(os.path.join(dev, "*.tla")) if dev else ()
    r = tlc(ctx, "NanoSemRun", env={"NANOSEM_JOBS": jf}, xss="900m", timeout=timeout, constants={"Fuel": str(fuel)}, cwd_files=overlay)
    if r.violated and r.violated != "Sound":
        raise InfraError("NanoSemRun reported %s\n%s" % (r.violated, r.out[-2000:]))
    recs = {rec["id"]: rec for rec in r.records}
    for rec in recs.values():
        outs = [rec.get("out", [])] + [sh.get("out", []) for sh in rec.get("shadows", [])]
        if any(ev["t"] not in ("int", "bool", "str") for o in outs for ev in o) and rec.get("status") == "ok":
            rec["status"] = "unspecified:print-composite"
    missing = [j["id"] for j in jobs if j["id"] not in recs]
    if missing:
        raise InfraError("NanoSem produced no result for %d jobs (e.g. %s)\n%s" % (len(missing), missing[:3], r.out[-2500:]))
    return recs, r


def interp_variant(p):
    """the body of main becomes a function of its own that a shadow block calls: the evaluator runs the whole program"""
    q = json.loads(json.dumps({k: v for k, v in p.items() if k != "__files__"}))
    for f in q["funcs"]:
        if f["n"] == "main":
            f["n"] = "body_of_main"
    q["funcs"].append(Func("main", [], "int", [Ret(Call("body_of_main"))]))
    q["shadows"] = [{"fn": "body_of_main", "b": [Let("rc__", "int", Call("body_of_main"))]}]
    return q


def sound_job(pid, p, dev=()):
    return job(pid, annotate_types(copy.deepcopy(p)), dev=dev, what="sound")


# ---------------------------------------------------------------------------------------------- running
ACCEPT_RE = re.compile(r"type check failed|Type checking failed|[Pp]arse error|Parsing failed|Error at line \d+, column \d+: (Expected|Unexpected)")
VM_STUCK = re.compile(r"type error|incompatible types|not a[n]? \w+|[Uu]ndefined|not found|Bad instruction|Unknown opcode|[Ss]tack (over|under)flow|out of range|not implemented", re.I)
VM_DOCUMENTED = re.compile(r"Assertion failed|out of bounds|Call depth exceeded|array is empty|[Dd]ivision by zero|negative size|index", re.I)
SAN_RE = re.compile(r"(AddressSanitizer|LeakSanitizer|UndefinedBehaviorSanitizer|runtime error:|SUMMARY: \w*Sanitizer)")


def accepted(v):
    t = v["err"].decode(errors="replace")
    return not ACCEPT_RE.search(t) and not (v["rc"] == 1 and not v["out"] and re.search(r"^-- [A-Z ]+ -+", t, re.M)
                                            and "runtime error" not in t and "codegen" not in t)


def norm_msg(s):
    return re.sub(r"[‘’'`\"][^‘’'`\"]*[‘’'`\"]|\d+", "_", s)[:70]


def native_problem(n):
    """C04: the accepted program does not build natively / the run dies of a signal other than a deliberate stop"""
    if not n["exe"]:
        t = (n["compile"]["out"] + n["compile"]["err"]).decode(errors="replace")
        if "C compilation failed" in t:
            es = re.findall(r"error: (.*?)(?: \[-W|\n)", t)
            return "cc-failed: " + (norm_msg(es[0]) if es else "?")
        if "Transpilation failed" in t: return "transpile-failed"
        if n["compile"]["sig"]: return "compiler-signal-%d" % n["compile"]["sig"]
        if n["compile"]["timeout"]: return "compiler-timeout"
        if "Shadow test" in t and "FAILED" in t: return None
        return "no-exe: " + norm_msg((re.findall(r"(?m)^.*(?:[Ee]rror|rror:).*$", t) or ["?"])[0])
    r = n["run"]
    if r["sig"] and r["sig"] not in (6, 8): return "signal-%d" % r["sig"]
    return None


def vm_problem(v):
    if v["sig"]: return "signal-%d" % v["sig"]
    err = v["err"].decode(errors="replace")
    m = re.search(r"codegen (?:failed|error)[^\n]*", err, re.I)
    if m: return "codegen-failed: " + norm_msg(m.group(0))
    if "erification failed" in err: return "verify-failed"
    m = re.search(r"runtime error: (.*)", err)
    if m and not VM_DOCUMENTED.search(m.group(1)) and VM_STUCK.search(m.group(1)):
        return "stuck: " + norm_msg(m.group(1))
    return None


def interp_transcript(x):
    text = re.sub(r"(?m)^\[FFI\] [^\n]*\n", "", x["out"].decode(errors="replace"))
    i = text.find("Testing body_of_main... ")
    if i < 0:
        return None
    body = text[i + len("Testing body_of_main... "):]
    k = body.find("Testing main... ")
    seg = body[:k] if k >= 0 else body
    verdict = "PASSED" if seg.endswith("PASSED\n") else "FAILED" if seg.endswith("FAILED\n") else None
    out = seg[:-7] if verdict else seg
    return dict(out=out, verdict=verdict, complete=k >= 0)


def run_all(ctx, progs, stages, eng, fast_env):
    def one(pid):
        p = progs[pid]
        src = pretty(p)
        d = eng.write(pid, src)
        res = {"src": src, "dir": d}
        if "vm" in stages or True:
            res["vm"] = eng.vm(d)
        if "native" in stages:
            n = eng.native(d, extra_env=fast_env) if fast_env else eng.native(d)
            if fast_env and not n["exe"]:
                n = eng.native(d)
            res["native"] = n
        if "nano_vm" in stages:
            e = eng.emit(d)
            res["nano_vm"] = eng.nano_vm(d) if os.path.exists(os.path.join(d, "p.nvm")) else dict(e, nobuild=True)
        if "interp" in stages:
            di = eng.write(pid + ".i", pretty(interp_variant(p)))
            res["interp"] = eng.shadow_only(di, verbose=True)
        return pid, res
    return dict(parallel_map(one, list(progs)))


# ---------------------------------------------------------------------------------------------- comparison
class Issue:
    def __init__(self, pid, engine, prop, kind, detail, obs=None):
        self.pid, self.engine, self.prop, self.kind, self.detail, self.obs = pid, engine, prop, kind, detail, obs
        self.known = None

    def sig(self):
        return (self.prop, self.engine, self.kind)


def diff_kind(ob, ex, err=b""):
    """a short class of the way a run differs from the prescription (data for clustering, not a verdict)"""
    t = err.decode(errors="replace")
    m = re.search(r"(?m)^(?:Error|error|runtime error|Runtime error|Runtime Error)[^\n]*", t)
    msg = (" [" + norm_msg(m.group(0)) + "]") if m else ""
    if ob[0] != "exit":
        return "%s-%s%s" % (ob[0], ob[1], msg)
    if ex[0] == "fault":
        return ("no-fault" if ob[1] == 0 else "output-before-fault") + msg
    if ob[2] == ex[2]:
        return "exit-status %s for %s%s" % (ob[1], ex[1], msg)
    if ob[1] != ex[1]:
        return "output-and-exit-status" + msg
    return "output" + msg


def interp_msgs(x):
    """the distinct diagnostics the evaluator printed during the run (part of the kind of a transcript difference)"""
    ms = sorted({norm_msg(m) for m in re.findall(r"(?m)^(?:Error|Runtime error|error)[^\n]*", x["err"].decode(errors="replace"))})
    return (" [" + "; ".join(ms[:4]) + "]") if ms else ""


def compare(progs, base, shadow, runs, stages):
    issues, stats = [], collections.Counter()
    for pid, rr in runs.items():
        o = base[pid]
        if not o["wt"]:
            stats["generator:ill-typed"] += 1
            continue
        if o["status"].startswith("stuck"):
            stats["spec:well-typed-but-stuck"] += 1
            continue
        v = rr["vm"]
        if not accepted(v):
            stats["rejected-by-the-real-checker"] += 1
            rr["rejected"] = True
            t = v["err"].decode(errors="replace")
            m = re.search(r"(?m)^(?:Error at line \d+, column \d+: )(.*)$", t) or re.search(r"(?m)^-- ([A-Z ]+) -+[^\n]*\n([^\n]*)", t)
            stats["rejected: " + norm_msg(" ".join(m.groups()) if m else t[:60])] += 1
            continue
        stats["accepted"] += 1
        st = o["status"]
        judged = st in DOCUMENTED
        stats["status:" + st] += 1
        ex = expected(o) if judged else None
        if "native" in stages:
            n = rr["native"]
            pr = native_problem(n)
            if pr:
                issues.append(Issue(pid, "native", "C04", pr, pr))
            elif n["exe"] and judged:
                ob = observe(n["run"])
                stats["compared:native"] += 1
                if ob[0] == "signal" and ob[1] == 6 and ex[0] == "fault":
                    ob = ("exit", 134, ob[2])           # abort(): the deliberate stop of native code; buffered output may be lost
                    if not ex[2].startswith(ob[2]):
                        issues.append(Issue(pid, "native", "C02", "output-before-fault-differs", "", ob))
                elif not matches(ob, ex):
                    issues.append(Issue(pid, "native", "C02", "run-differs: " + diff_kind(ob, ex, n["run"]["err"]), "", ob))
            elif not n["exe"] and judged:
                stats["native-no-exe-other"] += 1
        for engine in ("vm", "nano_vm"):
            if engine not in stages:
                continue
            x = rr[engine]
            if x.get("nobuild"):
                pr = vm_problem(x) or "no-module"
                issues.append(Issue(pid, engine, "C04", pr, pr)); continue
            pr = vm_problem(x)
            if pr:
                issues.append(Issue(pid, engine, "C04", pr, pr)); continue
            if judged:
                stats["compared:" + engine] += 1
                ob = observe(x)
                if not matches(ob, ex):
                    issues.append(Issue(pid, engine, "C02", "run-differs: " + diff_kind(ob, ex, x["err"]), "", ob))
        if "interp" in stages and pid in shadow:
            w = shadow[pid]["shadows"][0]
            x = rr["interp"]
            tr = interp_transcript(x)
            if x["sig"]:
                issues.append(Issue(pid, "interp", "C04", "signal-%d" % x["sig"], ""))
            elif tr is None:
                stats["interp-no-run"] += 1
            elif w["status"] == "ok":
                stats["compared:interp"] += 1
                if tr["out"] != render_out(w["out"]) or tr["verdict"] != "PASSED":
                    issues.append(Issue(pid, "interp", "C03", "transcript-differs" + interp_msgs(x), x["err"].decode(errors="replace")[-1500:], ("exit", 0, tr["out"].encode())))
            elif w["status"].startswith("fault:"):
                stats["compared:interp"] += 1
                if tr["verdict"] == "PASSED" or not tr["out"].startswith(render_out(w["out"])):
                    issues.append(Issue(pid, "interp", "C03", "transcript-differs (fault-not-reported)" + interp_msgs(x), "", ("exit", 1, tr["out"].encode())))
    return issues, stats


# ---------------------------------------------------------------------------------------------- attribution
def gx_findings():
    return [f for f in load_findings() if "GX" in f.get("properties", []) and f.get("status", "known") == "known"]


def attribute(ctx, progs, base, shadow, issues):
    """deviation switches first (as C01 / C02 / C03), then the syntactic shapes of the findings listed for GX"""
    ks = {}
    for prop in ("C01", "C02", "C03", "GX"):
        ks.update(known_switches(prop))
    jobs, index = [], {}
    for it in issues:
        if it.prop not in ("C02", "C03") or it.obs is None:
            continue
        eng = "vm" if it.engine == "nano_vm" else it.engine
        sws = [s for s in ENGINE_SWITCHES.get(eng, []) if s in ks]
        if not sws:
            continue
        jid = "%s|%s" % (it.pid, it.engine)
        jobs.append(job(jid + "|all", progs[it.pid], dev=sws)); index[jid] = (it, sws)
        for s in sws:
            jobs.append(job(jid + "|" + s, progs[it.pid], dev=[s]))
    recs = prescribe(ctx, jobs)[0] if jobs else {}
    for jid, (it, sws) in index.items():
        cands = [("all", recs[jid + "|all"])] + [(s, recs[jid + "|" + s]) for s in sws]
        for name, rec in cands:
            ok = False
            if it.engine == "interp":
                got = it.obs[2].decode(errors="replace")
                if rec["status"] == "ok":
                    ok = got == render_out(rec["out"])
                elif rec["status"].split(":")[0] in ("stuck", "unspecified"):
                    # under the deviation the evaluator goes on with a value the specification has no meaning for: the model
                    # follows the run up to that point and must agree up to there (as C03 does)
                    pref = render_out(rec["out"])
                    ok = len(pref) > 0 and got.startswith(pref) and base[it.pid]["status"] == "ok" and name != "all" and \
                        (rec["status"], pref) != (base[it.pid]["status"], render_out(base[it.pid]["out"]))
            else:
                ok = rec["status"] in DOCUMENTED + ("fault:sigfpe",) and matches(it.obs, expected(rec))
            if ok:
                rel = [s for s in sws if expected(recs[jid + "|" + s]) != expected(base[it.pid])] if name == "all" else [name]
                it.known = sorted({ks[s] for s in (rel or sws)})
                break
    shapes = gx_findings()
    for it in issues:
        if it.known:
            continue
        for f in shapes:
            m = f.get("match", {})
            if it.engine not in m.get("engines", []):
                continue
            if m.get("prop") and m["prop"] != it.prop:
                continue
            if m.get("kind_regex") and not re.search(m["kind_regex"], it.kind):
                continue
            sh = m.get("shape")
            if not sh or not gx_shapes.SHAPES[sh](progs[it.pid]):
                continue
            it.known = (it.known or []) + [f["id"]]
            if it.engine != "interp":          # an evaluator transcript may carry the diagnostics of several listed defects
                break
        if it.known and it.engine == "interp" and "for loop requires range expression" in it.kind and "NATIVE_FOR_IN_ARRAY_SKIPPED" in ks:
            it.known.append(ks["NATIVE_FOR_IN_ARRAY_SKIPPED"])
        if it.known:
            it.known = sorted(set(it.known))
    return recs


# ---------------------------------------------------------------------------------------------- the other bindings
def stage_asan(ctx, progs, base, runs, issues, stats):
    from props import c20
    tree = ctx.build("plain", nanoc=True)
    gdir = ctx.dir("gx_asan")
    todo = [pid for pid in progs if base[pid]["wt"] and base[pid]["status"] in DOCUMENTED and not runs[pid].get("rejected")
            and runs[pid].get("native", {}).get("exe", True)]
    paths = {}
    for pid in todo:
        safe = re.sub(r"[^A-Za-z0-9_]", "_", pid)
        paths[pid] = os.path.join(gdir, safe + ".nano")
        open(paths[pid], "w").write(runs[pid]["src"])
    if not todo:
        return
    logf = os.path.join(ctx.scratch, "gx_nano_cc.log")
    first = c20.run_program(ctx, tree, paths[todo[0]], None, log_cc=logf)
    rtlib = c20.build_rtlib(ctx, tree, logf) if os.path.exists(logf) else None
    res = [first] + parallel_map(lambda pid: c20.run_program(ctx, tree, paths[pid], rtlib), todo[1:])
    for pid, r in zip(todo, res):
        stats["asan:" + r["status"]] += 1
        if r["status"] == "sanitizer":
            line = next((l for l in r["stderr"].splitlines() if SAN_RE.search(l)), "")
            kind = re.sub(r"0x[0-9a-f]+|\d+", "_", re.sub(r"^.*?(runtime error:|ERROR: AddressSanitizer:)", r"\1", line))[:90]
            fr = re.findall(r"#\d+ 0x[0-9a-f]+ in (\w+)", r["stderr"])
            where = next((x for x in fr if not x.startswith(("__", "_IO", "printf", "vfprintf", "main")) and "sanitizer" not in x), "")
            it = Issue(pid, "asan", "C20", kind + " in " + where, r["stderr"][-3000:])
            issues.append(it)


def iasan_run(eng, name, p):
    di = eng.write(name, pretty(interp_variant(p)))
    e = eng.env({"NANO_CC": "/bin/true", "ASAN_OPTIONS": "detect_leaks=0:exitcode=77:symbolize=1:allocator_may_return_null=1", "UBSAN_OPTIONS": "print_stacktrace=1"})
    return _run([os.path.join(eng.bin, "nanoc_c"), "p.nano", "-o", "p.shadow"], di, e, 300)


def iasan_kind(x):
    """(kind, report) of a sanitizer report / fatal signal of the compiler, or None"""
    t = x["err"].decode(errors="replace")
    if not (SAN_RE.search(t) or x["sig"]):
        return None
    line = next((l for l in t.splitlines() if SAN_RE.search(l)), "signal-%s" % x["sig"])
    kind = re.sub(r"0x[0-9a-f]+|\d+", "_", re.sub(r"^.*?(runtime error:|ERROR: AddressSanitizer:)", r"\1", line))
    kind = re.sub(r" on address.*| in thread.*", "", kind)[:80]
    fr = re.findall(r"#\d+ 0x[0-9a-f]+ in (\w+)", t)
    where = next((f for f in fr if not f.startswith(("__", "_IO", "str", "mem", "free", "malloc", "realloc", "calloc", "printf", "vprintf")) and "interceptor" not in f), "")
    i0 = max(0, t.find(line))
    return kind + " in " + where, t[i0:i0 + 3500]


def stage_iasan(ctx, progs, base, runs, issues, stats):
    """the compile-time evaluator itself under ASan+UBSan: the shadow run of the program must not make the compiler misbehave"""
    eng = Engines(ctx, "asan")
    todo = [pid for pid in progs if base[pid]["wt"] and not runs[pid].get("rejected")]
    for pid, x in parallel_map(lambda pid: (pid, iasan_run(eng, pid + ".ia", progs[pid])), todo):
        stats["iasan:programs"] += 1
        k = iasan_kind(x)
        if k:
            issues.append(Issue(pid, "iasan", "C04", k[0], k[1]))


def stage_h1(ctx, progs, base, runs, eng, issues, stats):
    """hook H1: the VM's heap events validated against NanoVMTrace.tla (reference counts, dangling values, double release)"""
    todo = [pid for pid in progs if base[pid]["wt"] and not runs[pid].get("rejected") and base[pid]["status"] in DOCUMENTED]

    def one(pid):
        d = eng.write(pid + ".h1", runs[pid]["src"])
        tf = os.path.join(d, "trace.ndjson")
        r = eng.vm(d, extra_env={"NANOLANG_VERIF_TRACE_VM": tf, "NANOLANG_VERIF_FUEL": "20000"})
        good = []
        if os.path.exists(tf):
            for line in open(tf, errors="replace"):
                try:
                    json.loads(line); good.append(line)
                except ValueError:
                    break
            open(tf, "w").write("".join(good))
        return pid, dict(run=r, trace=tf if good else None, n=len(good))
    rs = dict(parallel_map(one, todo))
    chunks, cur, cur_n = [], [], 0
    for pid, r in rs.items():
        if not r["trace"] or r["n"] > 6000:
            stats["h1:skipped-long-or-empty"] += 1
            continue
        if cur_n + r["n"] > 6000 and cur:
            chunks.append(cur); cur, cur_n = [], 0
        cur.append(pid); cur_n += r["n"] + 2
    if cur:
        chunks.append(cur)

    def validate(ci):
        path = os.path.join(ctx.scratch, "gx_vmtrace.%d.ndjson" % ci)
        with open(path, "w") as f:
            for pid in chunks[ci]:
                f.write(json.dumps({"e": "Reset", "run": pid}) + "\n")
                f.write(open(rs[pid]["trace"]).read())
                f.write(json.dumps({"e": "EndRun", "churn": False}) + "\n")
        return ci, path, tlc(ctx, "NanoVMTrace", workers=1, env={"TRACE": path}, timeout=1800, xss="512m", xmx="3g")
    seen = set()
    for ci, path, r in parallel_map(validate, list(range(len(chunks))), jobs=min(6, NCPU)):
        summ = [x for x in r.records if x.get("kind") == "summary"]
        if not summ or summ[-1]["consumed"] < summ[-1]["n"]:
            raise InfraError("H1 trace chunk %d was not consumed to the end\n%s" % (ci, r.out[-1500:]))
        stats["h1:programs"] += len(chunks[ci])
        for x in r.records:
            if x.get("kind") in ("rcinv", "dangling", "badfree") and (x["run"], x["kind"]) not in seen:
                seen.add((x["run"], x["kind"]))
                issues.append(Issue(x["run"], "h1", "C14", "%s at %s" % (x["kind"], x.get("op", "")), json.dumps(x)[:600]))


class Capture:
    """a Ctx whose verdicts are collected instead of printed (vmval_lib.validate reports through its ctx)"""
    def __init__(self, real):
        self.real = real; self.got = []
    def __getattr__(self, n):
        return getattr(self.real, n)
    def violation(self, what, replay):
        self.got.append(("violation", what, replay))
    def known(self, fid, text):
        self.got.append(("known", fid, text))
    def save_replay(self, name, content=None, src=None):
        return self.real.save_replay("h7_" + name, content, src)


def stage_h7(ctx, progs, base, runs, issues, stats, head):
    from props import vmval_lib
    todo = {pid: runs[pid]["src"] for pid in progs if base[pid]["wt"] and not runs[pid].get("rejected") and base[pid]["status"] in DOCUMENTED}
    if not todo:
        return
    cap = Capture(ctx)
    res = vmval_lib.validate(cap, todo, head=head, label="gxvmval")
    stats["h7:programs"] = res["programs_traced"]; stats["h7:steps"] = res["stats"].get("steps", 0)
    for kind, a, b in cap.got:
        if kind == "known":
            ctx.known(a, "(instruction level) " + b)
            continue
        if "core resumed: Reset" in a or "observed Reset" in a:
            stats["h7:cut-at-head(not judged)"] += 1        # the trace prefix ends between a host event and the next instruction: nothing to judge
            continue
        m = re.match(r"(\S+): step \S+, instruction (\w+).*?: (\S+) differs", a) or re.match(r"(\S+): the VM was killed by signal (\d+) while executing instruction (\w+)", a)
        pid = m.group(1) if m else a.split(":")[0]
        k = ("%s %s" % (m.group(2), m.group(3))) if m else a[:60]
        issues.append(Issue(pid, "h7", "C02V", k, a + " [" + str(b) + "]"))


# ---------------------------------------------------------------------------------------------- reduction
def reducer(ctx, eng, fast_env, it, progs, runs):
    """-> predicate on programs: does the disagreement `it` show on this program?  Differential (no TLC in the loop): an engine
    problem must show again; a run that differs from the prescription must still differ from an engine that followed it."""
    ref = None
    if it.prop in ("C02", "C03"):
        for cand in ("vm", "native", "interp"):
            if cand != it.engine and not (cand == "vm" and it.engine == "nano_vm"):
                ref = cand
                break
        if it.engine == "native": ref = "vm"
    cnt = [0]
    t_start = time.time()
    budget = 40 if ctx.tier == "quick" else 120

    def run_engine(engine, q, d):
        if engine in ("vm", "h7", "h1"):
            return eng.vm(d)
        if engine == "nano_vm":
            e = eng.emit(d)
            return eng.nano_vm(d) if os.path.exists(os.path.join(d, "p.nvm")) else dict(e, nobuild=True)
        if engine == "native":
            return eng.native(d, extra_env=fast_env) if fast_env else eng.native(d)
        if engine == "interp":
            di = eng.write("red%d.i" % cnt[0], pretty(interp_variant(q)))
            return eng.shadow_only(di, verbose=True)

    def out_of(engine, x):
        if engine == "native":
            return observe(x["run"]) if x["exe"] else None
        if engine == "interp":
            tr = interp_transcript(x)
            return ("exit", 0, tr["out"].encode()) if tr else None
        return None if x.get("nobuild") else observe(x)

    def pred(q):
        cnt[0] += 1
        if cnt[0] > 250 or time.time() - t_start > budget:
            return False
        try:
            src = pretty(q)
        except Exception:
            return False
        if it.engine == "iasan":
            k = iasan_kind(iasan_run(Engines(ctx, "asan"), "red%d.ia" % cnt[0], q))
            return bool(k) and k[0].split(" in ")[0] == it.kind.split(" in ")[0]
        d = eng.write("red%d" % cnt[0], src)
        x = run_engine(it.engine, q, d)
        if it.prop == "C04":
            pr = native_problem(x) if it.engine == "native" else (vm_problem(x) or ("no-module" if x.get("nobuild") else None)) if it.engine in ("vm", "nano_vm") else \
                ("signal-%d" % x["sig"] if x["sig"] else None)
            return pr == it.kind
        a = out_of(it.engine, x)
        if a is None:
            return False
        y = run_engine(ref, q, d)
        if ref in ("vm",) and (not accepted(y) or vm_problem(y)):
            return False
        b = out_of(ref, y)
        if b is None or b[0] != "exit":
            return False
        if it.engine == "interp" or ref == "interp":
            return a[2] != b[2]
        return a != b
    return pred


# ---------------------------------------------------------------------------------------------- entry
def run(ctx):
    stages = [s for s in os.environ.get("GX_STAGES", ",".join(ALL_STAGES)).split(",") if s]
    progs, feats = corpus(ctx)
    t0 = time.time()
    jobs = [sound_job(pid, p) for pid, p in progs.items()]
    if "interp" in stages:
        jobs += [job(pid + "|shadow", interp_variant(p), what="shadow") for pid, p in progs.items()]
    recs, r1 = prescribe(ctx, jobs)
    base = {pid: recs[pid] for pid in progs}
    shadow = {pid: recs[pid + "|shadow"] for pid in progs if pid + "|shadow" in recs}
    t_tlc = time.time() - t0
    eng = Engines(ctx)
    from props import c02_lib
    fast_env = c02_lib.fast_cc(ctx, eng) if "native" in stages else {}
    t0 = time.time()
    runs = run_all(ctx, progs, stages, eng, fast_env)
    t_run = time.time() - t0
    issues, stats = compare(progs, base, shadow, runs, stages)
    stats["wall_tlc_s"] = round(t_tlc, 1); stats["wall_engines_s"] = round(t_run, 1)
    live = {pid: p for pid, p in progs.items() if base[pid]["wt"] and not runs[pid].get("rejected")}
    # the heavier bindings run on a slice of the corpus in the quick tier
    def slice_(k):
        ids = sorted(live)
        return {pid: live[pid] for pid in (ids if ctx.tier == "thorough" or os.environ.get("VERIF_ONLY") else ids[::k])}
    if "asan" in stages:
        t0 = time.time(); stage_asan(ctx, slice_(2), base, runs, issues, stats); stats["wall_asan_s"] = round(time.time() - t0, 1)
    if "iasan" in stages:
        t0 = time.time(); stage_iasan(ctx, slice_(2), base, runs, issues, stats); stats["wall_iasan_s"] = round(time.time() - t0, 1)
    if "h1" in stages:
        t0 = time.time(); stage_h1(ctx, slice_(2), base, runs, eng, issues, stats); stats["wall_h1_s"] = round(time.time() - t0, 1)
    if "h7" in stages:
        t0 = time.time(); stage_h7(ctx, slice_(3), base, runs, issues, stats, head=1200 if ctx.tier == "quick" else 4000); stats["wall_h7_s"] = round(time.time() - t0, 1)
    attribute(ctx, progs, base, shadow, issues)
    # ill-typed / stuck programs are defects of the generator or of the specification: reported as infrastructure notes
    notes = []
    for pid in progs:
        o = base[pid]
        if not o["wt"]:
            notes.append("generator: %s is not well typed for NanoType: %s" % (pid, o["violates"]))
        elif o["status"].startswith("stuck"):
            notes.append("specification: %s is well typed but gets stuck: %s" % (pid, o["status"]))
    for n_ in notes[:12]:
        log(n_)
    clusters = collections.OrderedDict()
    for it in issues:
        if it.known:
            for fid in it.known:
                ctx.known(fid, "%s %s: %s, e.g. program %s" % (it.prop, it.engine, it.kind, it.pid))
            stats["known:" + "+".join(it.known)] += 1
        else:
            clusters.setdefault(it.sig(), []).append(it)
    report = []
    for sig, its in clusters.items():
        its.sort(key=lambda i: len(runs[i.pid]["src"]))
        it = its[0]
        p = progs[it.pid]
        red = p
        if not os.environ.get("GX_NOREDUCE") and it.engine in ("native", "vm", "nano_vm", "interp", "iasan"):
            pred = reducer(ctx, eng, fast_env, it, progs, runs)
            try:
                if pred(p):
                    red = reduce_prog(p, pred, max_rounds=3)
            except Exception as e:
                log("reduction failed for %s: %r" % (it.pid, e))
        src = pretty(red)
        feat = collections.Counter(f for i in its for f in feats.get(i.pid, ()))
        rep = {"property": it.prop, "engine": it.engine, "kind": it.kind, "programs": [i.pid for i in its][:20], "count": len(its), "features": dict(feat),
               "reduced_from": it.pid, "reduced_source": src, "original_source": runs[it.pid]["src"], "detail": it.detail[-2500:],
               "prescribed": {"status": base[it.pid]["status"], "stdout": render_out(base[it.pid]["out"])[:2000], "exit": base[it.pid]["exit"]},
               "observed": ({"kind": it.obs[0], "code": it.obs[1], "stdout": it.obs[2].decode(errors="replace")[:2000]} if it.obs else None)}
        name = re.sub(r"[^A-Za-z0-9_.-]", "_", "%s_%s_%s" % (it.prop, it.engine, it.kind))[:80]
        ctx.save_replay(name + ".nano", src)
        path = ctx.save_replay(name + ".json", json.dumps(rep, indent=1))
        report.append(rep)
        ctx.violation("NEW %s %s: %s (%d programs, e.g. %s; features %s)" % (it.prop, it.engine, it.kind, len(its), it.pid, dict(feat)), path)
    nfeat = collections.Counter(fs for fs in feats.values())
    cov = dict(programs=len(progs), judged=sum(1 for pid in progs if base[pid]["wt"]), accepted=stats["accepted"], disagreements=len(issues),
               new_clusters=len(clusters), classes={k: v for k, v in stats.items()}, feature_sets=len(nfeat), notes=notes[:40],
               evaluations=sum(v for k, v in stats.items() if k.startswith("compared:")), distinct_nontrivial=len({sha(r["src"]) for r in runs.values()}),
               states=r1.distinct if r1 else 0, transitions=r1.generated if r1 else 0,
               samples=[{"program": pid, "status": base[pid]["status"]} for pid in list(progs)[:3]],
               rule="seeded generator programs per feature set (every flag alone, random pairs / triples), judged by NanoType + NanoSem (job kind sound), "
                    "each engine compared with the prescription; heavier bindings (asan, h1, h7) on a slice in the quick tier")
    return "exploration", cov, ["developer check: not one of the 20 properties; a disagreement is attributed to C01-C04 / C14 / C20 by its kind"]


def replay(ctx, path):
    rep = json.load(open(path))
    print(json.dumps({k: v for k, v in rep.items() if k not in ("original_source",)}, indent=1))
    return 0
