"""C18 - the daemon survives malformed and abandoned client sessions.

Model:   spec/Vmd.tla, one well-formed client + two arbitrary others (every malformed / abandoning behaviour, ping,
         status), every interleaving: Available (the process stays up), ReplyOK (an offending session ends with an
         error reply or a closed connection), Transparency/Isolation for the good client, ActiveOK, StatusOK;
         liveness GoodServed / AllEnd on a reduced behaviour set.  Sensitivity: Verify = FALSE (the daemon at HEAD)
         and IgnoreSigpipe = FALSE must violate Available.
Replay:  scenarios (behaviour triples x arrival schedules) emitted by TLC -> standins/vmd_clients against a private
         nano_vmd (plain and ASan+UBSan build): afterwards the daemon process exists, is not a zombie, answers PING;
         every session's reply is in the set the spec allows for its behaviour; every well-formed client got its
         standalone-equivalent result; at the end g_active_clients is back to the asking session alone.
Traces:  H4 session events -> spec/VmdTrace.tla (see vmd_trace.py).
"""
import json
import os
import random
import threading

from lib.common import InfraError, findings_for, log, sha, tlc
from props import vmd_lib as L
from props.vmd_lib import V

TEMPLATES = ["one", "many", "big", "heap"]


def model(ctx, quick, out):
    try:
        main = tlc(ctx, "Vmd", "Vmd_c18_quick" if quick else "Vmd_c18", timeout=6000)
        if main.violated:
            raise InfraError("Vmd (C18 configuration) violates %s:\n%s" % (main.violated, "\n".join(main.trace[-2:])[-3000:]))
        asis = tlc(ctx, "Vmd", "Vmd_c18_asis", workers=2, timeout=600)
        sigp = tlc(ctx, "Vmd", "Vmd_c18_sigpipe", workers=2, timeout=600)
        if asis.violated != "Available" or sigp.violated != "Available":
            raise InfraError("sensitivity configurations no longer violate Available: asis=%r sigpipe=%r" % (asis.violated, sigp.violated))
        live = None
        if not quick:
            live = tlc(ctx, "Vmd", "Vmd_c18_live", timeout=6000)
            if live.violated:
                raise InfraError("Vmd_c18_live violates %s" % live.violated)
        out.update(main=main, asis=asis, sigpipe=sigp, live=live)
    except Exception as e:
        out["error"] = e


def judge(ctx, flat, obs, health, dm_log, what, spec, stats):
    """list of failure records for one round (empty = the property held on this round)"""
    fails = []
    for cl, o in zip(flat, obs):
        stats["sessions"] += 1
        stats["cases"].add((cl["kind"], cl.get("hostile_variant"), o.get("half_close"), cl["via"]))
        if o.get("reply") == "driver_error":
            raise InfraError("client driver failed: %s" % o.get("error"))
        if cl["kind"] == "exec":
            d = L.compare_exec(o, cl["std"])
            if d:
                fails.append(dict(defect="good_client_not_served", client=cl["id"], kind="exec", detail="; ".join(d)[:500]))
        elif cl["kind"] in ("ping", "status"):
            if o["reply"] not in cl["allowed"]:
                fails.append(dict(defect="reply_not_allowed", client=cl["id"], kind=cl["kind"], detail="reply %s" % o["reply"]))
            # the daemon was idle when the round began (checked by the caller), so only this round's sessions and the
            # tail of the caller's own STATUS probe can be counted
            if cl["kind"] == "status" and o.get("status_n") is not None and not (1 <= o["status_n"] <= len(flat) + 2):
                fails.append(dict(defect="status_out_of_range", client=cl["id"], kind="status", detail="active_clients=%d with %d clients" % (o["status_n"], len(flat))))
        elif o.get("unobserved"):
            stats["unobserved"] += 1          # the client closed its socket: nothing to see from this side
        elif o["reply"] not in cl["allowed"]:
            fails.append(dict(defect="reply_not_allowed", client=cl["id"], kind=cl["kind"], hostile_variant=cl.get("hostile_variant"),
                              detail="session ended with %r (%d frames, stdout %d bytes), allowed %r" %
                                     (o["reply"], o.get("nframes", 0), len(o.get("stdout", b"")), cl["allowed"])))
    if not (health["alive"] and health["ping"]):
        fails.append(dict(defect="daemon_died", detail="health %r; stderr tail: %s" % (health, dm_log[-400:])))
    for r in L.asan_reports(dm_log):
        fails.append(dict(defect="sanitizer_report", detail=r[:600]))
    for r in L.tsan_reports(dm_log):
        if r["hook_only"]:
            continue
        fails.append(dict(defect="tsan_report", detail=r["text"][:600], site=sorted(set(r["funcs"][:12]) | set(r["globals"]))))
    return fails


def run_rounds(ctx, bench, variant, rounds, findings, stats, tag, yield_seed=0, trace=None):
    """Rounds with a hostile client get a daemon of their own, so that a crash or a sanitizer report is attributable."""
    work = ctx.dir("w_" + tag)
    sdir = os.path.join(ctx.scratch, "s" + tag[:6])
    shared = None
    nlog = [0]

    def new_daemon(own=False):
        # Daemon.stop() also kills lazily launched daemons of its directory: private daemons get a directory of their own
        nlog[0] += 1
        return V.Daemon(bench.vmd(variant), sdir + ("h" if own else ""), bench.P, trace=trace, yield_seed=yield_seed,
                        env=ctx.env({"TSAN_OPTIONS": "halt_on_error=0:exitcode=0:history_size=7"}),
                        log=os.path.join(work, "daemon.%d.err" % nlog[0]))

    def play_on(dm, rd, drop_hostile=False):
        rng = random.Random(rd["seed"])
        groups = [L.concretize(bench, s, rng, 1 + 3 * i, hostile_variant=rd.get("hostile_variant")) for i, s in enumerate(rd["scens"])]
        if drop_hostile:
            groups = [[dict(cl) for cl in g if cl["kind"] != "hostile"] for g in groups]
            for g in groups:                       # an "after" edge to a removed client disappears with it
                ids = {cl["c"] for cl in g}
                for cl in g:
                    if cl.get("after_c") not in ids:
                        cl.pop("after_c", None)
        flat, obs = L.play_round(bench, dm, groups, rng, work)
        return flat, obs

    try:
        for i, rd in enumerate(rounds):
            if stats["violations"] >= 8:
                log("%s: stopping after %d violations" % (tag, stats["violations"]))
                break
            hostile = any(k == "hostile" for s in rd["scens"] for k in s["kinds"])
            if hostile:
                dm = new_daemon(own=True)
            else:
                if shared is None:
                    shared = new_daemon()
                dm = shared
            pre = len(dm.stderr_text())
            if not hostile and stats["rounds"] > 0:
                # sessions abandoned in earlier rounds (client gone, program still printing) must drain first
                n0 = dm.wait_idle(60)
                if n0 != 1:
                    path = ctx.save_replay("idle_%s_%d.json" % (tag, i), json.dumps(dict(prop="C18", kind="idle", variant=variant, active=n0,
                                                                                     before_round=i, stderr=dm.stderr_text()[-2000:]), indent=1))
                    ctx.violation("%s: before round %d the daemon reports active_clients=%r (expected 1): an earlier session never ended" % (tag, i, n0), path)
                    stats["violations"] += 1
                    shared.stop()
                    shared = dm = new_daemon()
                    pre = 0
            try:
                flat, obs = play_on(dm, rd)
                health = dm.health()
                if hostile:
                    dm.stop()
                fails = judge(ctx, flat, obs, health, dm.stderr_text()[pre:], tag, rd, stats)
            finally:
                if hostile:
                    dm.stop()
            stats["rounds"] += 1
            if i < 2:
                stats["samples"].append(dict(tag=tag, clients=L.describe(flat, obs)))
            spec = dict(prop="C18", kind="round", variant=variant, yield_seed=yield_seed, round=rd)
            if fails and hostile:
                # attribution: the same round without the hostile client(s), on a fresh daemon, must be clean
                dm2 = new_daemon(own=True)
                try:
                    flat2, obs2 = play_on(dm2, rd, drop_hostile=True)
                    h2 = dm2.health()
                    dm2.stop()
                    fails2 = judge(ctx, flat2, obs2, h2, dm2.stderr_text(), tag + " (hostile client removed)", rd, stats)
                finally:
                    dm2.stop()
                hv = sorted({cl["hostile_variant"] for cl in flat if cl["kind"] == "hostile"})
                f = L.match_finding(findings, trigger="hostile_module", hostile_variant=hv,
                                    defect=sorted({x["defect"] for x in fails}))
                if not fails2 and f:
                    ctx.known(f["id"], "hostile module (%s): %s" % (", ".join(hv), "; ".join(sorted({x["defect"] + ": " + x["detail"][:120] for x in fails}))[:400]))
                    stats["known"] += 1
                    fails = []
                elif fails2:
                    fails = fails2
                    flat, obs = flat2, obs2
            if fails:
                if shared is not None and not hostile and any(x["defect"] == "daemon_died" for x in fails):
                    shared.stop()
                    shared = None
                if stats["violations"] < 4:
                    rp = dict(spec, what=tag, failures=fails, clients=L.describe(flat, obs))
                    path = ctx.save_replay("round_%s.json" % sha(json.dumps(rp, sort_keys=True, default=str)), json.dumps(rp, indent=1, default=str))
                    ctx.violation("%s round %d: %s" % (tag, i, "; ".join("%s (%s)" % (x["defect"], x["detail"][:200]) for x in fails)[:900]), path)
                stats["violations"] += 1
        if shared is not None:
            n = shared.wait_idle(60)
            if n != 1:
                path = ctx.save_replay("idle_%s.json" % tag, json.dumps(dict(prop="C18", kind="idle", variant=variant, active=n,
                                                                             stderr=shared.stderr_text()[-2000:]), indent=1))
                ctx.violation("%s: after all sessions the daemon reports active_clients=%r (expected 1): a session never ended" % (tag, n), path)
                stats["violations"] += 1
            stats["idle_checks"] += 1
    finally:
        if shared is not None:
            shared.stop()
        V.kill_private_daemons(sdir)
        V.kill_private_daemons(sdir + "h")


def pick(scens, rng, n, kinds_min=2):
    """seeded sample that contains every behaviour at least kinds_min times in each of the two 'other' positions"""
    pool = list(scens)
    rng.shuffle(pool)
    count, out = {}, []
    for s in pool:
        ks = [k for k in s["kinds"] if k != "exec"]
        if any(count.get(k, 0) < kinds_min for k in ks):
            out.append(s)
            for k in ks:
                count[k] = count.get(k, 0) + 1
    for s in pool:
        if len(out) >= n:
            break
        if s not in out:
            out.append(s)
    return out


def rounds_of(scens, rng, variants=V.HOSTILE_VARIANTS):
    out = []
    hv = 0
    for s in scens:
        rd = dict(scens=[s], seed=rng.getrandbits(31))
        if "hostile" in s["kinds"]:
            rd["hostile_variant"] = variants[hv % len(variants)]
            hv += 1
        out.append(rd)
    return out


def run(ctx):
    quick = ctx.tier == "quick"
    findings = findings_for("C18")
    mres = {}
    mt = threading.Thread(target=model, args=(ctx, quick, mres))
    mt.start()
    bench = L.Bench(ctx, ("plain", "asan"))
    scens = L.scenarios_from(ctx, "Vmd_c18_gen")
    bench.wait()
    bench.preload(TEMPLATES, range(1, 7))
    bench.check_shapes()
    hvs = bench.hostile_variants()
    rng = random.Random(ctx.seed)
    stats = dict(sessions=0, rounds=0, violations=0, known=0, unobserved=0, idle_checks=0, cases=set(), samples=[])

    sample = pick(scens, rng, 110 if quick else 1500)
    rounds = rounds_of(sample, rng, hvs)
    # every hostile variant (function-table entries outside the code section: plainly, and as pairs whose 32-bit sum
    # wraps around; undefined opcode) at least once per stage, next to a well-formed client
    one_hostile = [s for s in scens if s["kinds"].count("hostile") == 1 and s["gaps"] == ["overlap", "overlap"]]

    def per_variant():
        return [dict(scens=[one_hostile[rng.randrange(len(one_hostile))]], seed=rng.getrandbits(31), hostile_variant=v) for v in hvs]
    rounds = per_variant() + rounds
    # two scenarios at once (6 clients) now and then
    for _ in range(6 if quick else 60):
        a, b = rng.choice(scens), rng.choice(scens)
        rounds.append(dict(scens=[a, b], seed=rng.getrandbits(31), hostile_variant=rng.choice(hvs)))
    run_rounds(ctx, bench, "plain", rounds, findings, stats, "plain", yield_seed=ctx.seed * 31 + 5)
    asample = pick(scens, rng, 40 if quick else 400, kinds_min=1)
    run_rounds(ctx, bench, "asan", per_variant() + rounds_of(asample, rng, hvs), findings, stats, "asan", yield_seed=0)

    traces = dict(validated=0, events=0, rejected=0)
    try:
        from props import vmd_trace
    except ImportError:
        vmd_trace = None
    if bench.traced and vmd_trace:
        tsample = rounds_of(pick(scens, rng, 40 if quick else 300, kinds_min=1), rng, hvs)
        nh = 0
        keep = []
        for rd in tsample:                     # every hostile round costs a daemon and a TLC run of its own
            if "hostile" in rd["scens"][0]["kinds"]:
                nh += 1
                if nh > (2 if quick else 12):
                    continue
            keep.append(rd)
        vmd_trace.validate(ctx, bench, "C18", keep, findings, stats, traces, yield_seed=ctx.seed + 9)
    else:
        ctx.assumptions.append("H4 session events not compiled into this tree / trace validator absent: no trace validation")

    mt.join()
    if "error" in mres:
        raise mres["error"]
    main = mres["main"]
    kinds_seen = sorted({c[0] for c in stats["cases"]})
    cov = dict(
        states=main.distinct, transitions=main.generated,
        traces_validated_against_impl=traces["validated"], trace_events=traces["events"],
        trace_selftest=traces.get("selftest", []), traces_explained_with_switches=traces.get("with_switches", []),
        evaluations=stats["sessions"], distinct_nontrivial=len(stats["cases"]),
        rule="one evaluation = one client session of a Vmd.tla scenario (behaviour triple x arrival schedule) played against the real "
             "daemon and judged against the reply set the spec allows / the standalone run; distinct = (behaviour, hostile variant, "
             "close vs half-close, raw vs real client)",
        scenarios_generated=len(scens), rounds=stats["rounds"], behaviours_replayed=kinds_seen,
        hostile_variants=hvs, hostile_variants_replayed=sorted({c[1] for c in stats["cases"] if c[1]}),
        sessions_closed_unobserved=stats["unobserved"], idle_checks=stats["idle_checks"], known_hits=stats["known"],
        model=dict(depth=main.depth,
                   sensitivity=dict(verify_off=mres["asis"].violated, sigpipe_default=mres["sigpipe"].violated,
                                    verify_off_trace_len=len(mres["asis"].trace)),
                   liveness=(dict(states=mres["live"].distinct, properties="GoodServed AllEnd") if mres.get("live") else "thorough tier only")),
        protocol_constants={k: v for k, v in bench.P.items() if k != "known_types"},
        samples=stats["samples"][:3],
        exhaustive=False)
    assumptions = [
        "a session whose client closed its own socket is judged by the daemon's health and bookkeeping (STATUS returns to 1), "
        "not by a reply nobody can read",
        "the SHUTDOWN message (a well-formed request to stop) is outside the behaviour set of the property",
        "hostile modules: seven function-table / opcode corruptions with recomputed checksum (three of them offset/length pairs "
        "whose 32-bit sum wraps); hostile by construction - the harness re-reads the image and checks in exact arithmetic that "
        "the entry lies outside the code section (the undefined-opcode variant is used only if the tree's verifier refuses it); "
        "the full hostile-module space belongs to C13",
        "a daemon crash in a round with a hostile client is attributed to it only if the same round without it is clean on a fresh daemon",
    ]
    return "model_checking", cov, assumptions


def replay(ctx, path):
    if path.endswith(".ndjson"):
        from props import vmd_trace
        return vmd_trace.replay_trace(ctx, L.Bench(ctx, ("plain",)).wait(), path)
    rp = json.load(open(path))
    findings = findings_for("C18")
    variant = rp.get("variant", "plain")
    bench = L.Bench(ctx, ("plain",) if variant == "plain" else ("plain", variant)).wait()
    stats = dict(sessions=0, rounds=0, violations=0, known=0, unobserved=0, idle_checks=0, cases=set(), samples=[])
    if rp.get("kind") == "round":
        run_rounds(ctx, bench, variant, [rp["round"]] * 10, findings, stats, "replay", yield_seed=rp.get("yield_seed", 0))
    log("replayed %d rounds: %d violations" % (stats["rounds"], stats["violations"]))
    return 1 if ctx.violations else 0
