"""Trace validation of hook H5 events against spec/CopTrace.tla (shared by C15 and C16)."""
import json
import os

from lib.common import InfraError, findings_for, log, tlc
from props import cop_lib as L

FIELDS = {"e": "", "k": 0, "len": 0, "type": 0, "ok": True, "why": "", "pid": 0, "how": "", "disp": "", "calls": 1,
          "argsize": 0, "step": "none", "kind": "none", "res": "", "code": 0, "nout": 0, "zombie": False}


def norm(ev):
    d = dict(FIELDS)
    for k, v in ev.items():
        if k in d:
            d[k] = v
    return d


def execution(path, reset, end):
    evs = []
    for line in open(path):
        line = line.strip()
        if line:
            evs.append(json.loads(line))
    return [norm(dict(reset, e="Reset"))] + [norm(e) for e in evs] + [norm(dict(end, e="end"))]


def run_tlc(ctx, c, events, dev, exact, name):
    tf = os.path.join(ctx.dir("traces"), name + ".ndjson")
    with open(tf, "w") as f:
        for e in events:
            f.write(json.dumps(e) + "\n")
    consts = L.protocol_constants(c, dev=dev)
    consts["ExactLen"] = "TRUE" if exact else "FALSE"
    r = tlc(ctx, "CopTrace", "CopTrace", constants=consts, workers=1, env={"TRACE": tf}, timeout=1200)
    accepted = r.violated == "NotAccepted"
    reached = max([x["i"] for x in r.records if x.get("k") == "reached"] + [0])
    return accepted, reached, tf, r


def validate(ctx, c, runs, prop, tier="quick", healthy=False, too_big=(), observed_switches=()):
    """runs: [(job, r)] with r['trace'] = path of the H5 log of that run."""
    execs = []
    for job, r in runs:
        if not r.get("trace"):
            continue
        raw = [json.loads(l) for l in open(r["trace"]) if l.strip()]
        disp = next((e["disp"] for e in raw if e.get("e") == "sigpipe"), None)
        if healthy:
            name, klass, argsize = job
            calls = max(1, sum(1 for e in raw if e.get("e") == "call"))
            reset = {"calls": calls, "argsize": argsize, "step": "none", "kind": "none"}
            tag = name
        else:
            step, kind, sched, idx = job
            reset = {"calls": r.get("calls", 2), "argsize": 9, "step": step, "kind": kind}
            tag = "%s.%s.%s%d" % (step, kind, sched, idx)
        end = {"res": r["res"], "code": -1 if r.get("loose_end") and r["res"] == "exit" else r["code"], "nout": None}
        execs.append(dict(tag=tag, path=r["trace"], reset=reset, end=end, disp=disp, stdout_lines=len(r["stdout"].decode(errors="replace").splitlines()), healthy=healthy))
    if not execs:
        return {"status": "no traces recorded"}
    dev = set()
    if any(x["disp"] == "default" for x in execs):
        dev.add("VM_SIGPIPE_DEFAULT")
    if c["REQBUF"] > 0:
        dev.add("COP_REQBUF_FIXED")
    dev |= set(observed_switches)      # decoder deviations: as observed on this tree by the hostile-buffer probe
    dev = sorted(dev)

    def events_of(x):
        end = dict(x["end"])
        n = x["stdout_lines"]
        if x["healthy"]:
            # C15 programs print begin, one or more lines per call, end: only first/last line are modelled -> compare the count loosely
            end["nout"] = -1
        else:
            end["nout"] = n
        return execution(x["path"], x["reset"], end)

    allev = []
    for x in execs:
        allev += events_of(x)
    if healthy:
        for e in allev:
            if e["e"] == "end":
                e["nout"] = -1
    accepted, reached, tf, r = run_tlc(ctx, c, allev, dev, not healthy, prop.lower() + "-all")
    out = {"executions": len(execs), "events": len(allev), "deviation_switches_of_this_tree": dev, "accepted": accepted,
           "tlc_states": r.distinct}
    rejected = []
    if not accepted:
        accepted2, reached, _, _ = run_tlc(ctx, c, allev, dev, not healthy, prop.lower() + "-all-rerun")
        remaining = list(execs)
        while not accepted2 and remaining and len(rejected) < 6:
            # the execution in which the furthest behaviour got stuck
            pos, culprit = 0, remaining[-1]
            for x in remaining:
                n = len(events_of(x))
                if reached <= pos + n:
                    culprit = x
                    break
                pos += n
            ok, r1, tfx, _ = run_tlc(ctx, c, events_of(culprit), dev, not healthy, prop.lower() + "-" + culprit["tag"])
            if not ok:
                rejected.append((culprit, r1, tfx, events_of(culprit)))
            remaining = [x for x in remaining if x is not culprit]
            rest = []
            for x in remaining:
                rest += events_of(x)
            if not rest:
                break
            accepted2, reached, _, _ = run_tlc(ctx, c, rest, dev, not healthy, prop.lower() + "-rest%d" % len(rejected))
        for x, reached1, tfx, evs in rejected[:5]:
            first_bad = evs[reached1 - 1] if 0 < reached1 <= len(evs) else None
            rep = ctx.save_replay("trace-%s.ndjson" % x["tag"], src=tfx)
            ctx.violation("co-process lifecycle trace of run %s is not a behaviour of CopProtocol (switches %s): %d of %d events accepted, first unmatched: %s"
                          % (x["tag"], dev, max(reached1 - 1, 0), len(evs), json.dumps({k: v2 for k, v2 in (first_bad or {}).items() if v2 not in ("", 0, None) or k == "e"})), rep)
        out["rejected"] = [x["tag"] for x, _, _, _ in rejected]
        out["accepted_after_rerun"] = bool(accepted2) and not rejected
    # binding self-test: a corrupted log must be rejected
    demo = next((x for x in execs if x["end"]["res"] == "exit"), None)
    if demo:
        evs = events_of(demo)
        muts = {}
        drop = [e for e in evs if not (e["e"] == "reaped")]
        if len(drop) != len(evs):
            muts["drop_reaped_event"] = drop
        hd = [dict(e) for e in evs]
        for e in hd:
            if e["e"] == "hdr":
                e["type"] = 17
                muts["hdr_type_changed"] = hd
                break
        en = [dict(e) for e in evs]
        en[-1]["code"] = 1 - en[-1]["code"]
        muts["exit_code_flipped"] = en
        sw = [dict(e) for e in evs]
        idx = [j for j, e in enumerate(sw) if e["e"] in ("req", "hdr")]
        if len(idx) >= 2:
            sw[idx[0]], sw[idx[1]] = sw[idx[1]], sw[idx[0]]
            muts["req_hdr_swapped"] = sw
        res = {}
        for name, m in muts.items():
            ok, _, _, _ = run_tlc(ctx, c, m, dev, not healthy, prop.lower() + "-selftest-" + name)
            res[name] = "rejected" if not ok else "ACCEPTED"
        out["corrupted_traces"] = res
        if any(v2 == "ACCEPTED" for v2 in res.values()):
            raise InfraError("trace validation accepts a corrupted trace: %r" % res)
    return out


def observed_decoder_switches(ctx, c, probe):
    """Which decoder deviations does this tree show?  Two witness buffers through the real cop_deserialize_value."""
    from lib.common import sh
    cases = [{"k": "hostile", "buf": [c["TAG_STRING"], 255, 255, 255, 255], "n": 0, "hz": "oob", "x": {"t": "void", "l": [], "b": [], "et": 0, "xs": []}},
             {"k": "hostile", "buf": [c["TAG_ARRAY"], 0, 255, 255, 255, 255, c["TAG_VOID"]], "n": 0, "hz": "alloc", "x": {"t": "void", "l": [], "b": [], "et": 0, "xs": []}}]
    cf = os.path.join(ctx.dir("traces"), "switch-probe.ndjson")
    with open(cf, "w") as f:
        for x in cases:
            f.write(json.dumps(x) + "\n")
    p = sh([probe, cf], env=ctx.env(), check=False)
    sw = set()
    for l in p.stdout.splitlines():
        if l.startswith("{") and '"crash":true' in l:
            sw.add({"oob": "DE_LEN_WRAP", "alloc": "DE_COUNT_UNBOUNDED"}[json.loads(l)["hz"]])
    return sw


def replay_trace(ctx, c, probe, path, prop):
    evs = [json.loads(l) for l in open(path) if l.strip()]
    dev = set(observed_decoder_switches(ctx, c, probe))
    if any(e.get("disp") == "default" for e in evs):
        dev.add("VM_SIGPIPE_DEFAULT")
    if c["REQBUF"] > 0:
        dev.add("COP_REQBUF_FIXED")
    exact = prop == "C16"
    ok, reached, _, _ = run_tlc(ctx, c, evs, sorted(dev), exact, "replay")
    print("trace %s: %d events, model switches %s: %s (events consumed: %d)" % (path, len(evs), sorted(dev), "accepted" if ok else "REJECTED", max(reached - 1, 0)))
    if not ok:
        print("VIOLATION property=%s replay=%s" % (prop, path))
    return 0 if ok else 1
