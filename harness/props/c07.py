"""C07 -- prefix and infix notation denote the same program.

Oracle and generator: spec/NanoSyntax.tla.  TLC (a) model-checks Parse(Prefix(e)) = e /\\ Parse(Infix(e)) = e
for every generated tree (the notation as specified is unambiguous) and (b) emits, per tree, the two
spellings, the value the expression must have, and -- deviation switch PARSE_POSTFIX_ON_LEFT -- the
prefix spelling of what a parser with the known defect F9 would read.

Replay: both spellings are placed on the same source line of otherwise identical programs (one function
per tree, ~100 per file), compiled by the real `nano_virt --emit-nvm`; the CODE section and the function
table of the two files must be byte-identical (the property).  Both files are run by `nano_vm`; the outputs
must be equal and equal to the values prescribed by the spec.

Python only builds, prints, runs and compares bytes.
"""
import json
import os
import re
import struct
import subprocess
from concurrent.futures import ThreadPoolExecutor

from lib.common import (InfraError, NCPU, REPO, findings_for, log, sha, tlc)

PROP = "C07"
BATCH = 100
MAX_REPORT = 12          # individual violations reported before only counting

HOST_HEAD = """struct P { x: int, y: int, b: bool }
struct O { p: P }
fn f(m: int, n: int) -> int { return (+ (* m 3) n) }
fn h(m: int) -> int { return (- m 1) }
fn z() -> int { return 8 }
fn g(m: int) -> bool { return (> m 2) }
fn mk(m: int) -> P { return P { x: m, y: (+ m 1), b: true } }
"""
PARAMS = ("a: int, b: int, c: int, d: int, u: bool, v: bool, w: bool, s: bool, p: P, o: O, t: (int, int), "
          "fa: float, fb: float, fc: float, fd: float, sa: string, sb: string, sc: string, sd: string")
ARGS = "7 3 2 5 true false true false p o t 1.5 2.25 0.5 4.0 \"x\" \"y\" \"z\" \"w\""
MAIN_HEAD = """fn main() -> int {
  let p: P = P { x: 5, y: 11, b: false }
  let o: O = O { p: P { x: 4, y: 9, b: true } }
  let t: (int, int) = (6, 13)
"""


def program(cases, which):
    """cases: list of (record, index).  which: 'prefix' | 'infix' | 'dev'.  The expression is alone on its line."""
    out = [HOST_HEAD]
    for k, (rec, _) in enumerate(cases):
        out.append("fn c%d(%s) -> %s {\n" % (k, PARAMS, rec["ty"]))
        if k % 2 == 0:
            out.append("  return\n    %s\n}\n" % rec[which])
        else:
            out.append("  let r: %s =\n    %s\n  return r\n}\n" % (rec["ty"], rec[which]))
    out.append(MAIN_HEAD)
    for k, (rec, _) in enumerate(cases):
        if rec["val"] not in ("div0", "skip"):
            out.append("  (println (c%d %s))\n" % (k, ARGS))
    out.append("  return 0\n}\n")
    return "".join(out)


# ------------------------------------------------------------------ .nvm reader (layout constants extracted)
class NvmLayout:
    def __init__(self, tree):
        h = open(os.path.join(tree, "src", "nanoisa", "nvm_format.h")).read()

        def const(name):
            m = re.search(r"#define\s+%s\s+(\d+)" % name, h)
            if not m:
                raise InfraError("constant %s not found in nvm_format.h" % name)
            return int(m.group(1))

        def enumv(name):
            m = re.search(r"%s\s*=\s*(0x[0-9A-Fa-f]+|\d+)" % name, h)
            if not m:
                raise InfraError("enum value %s not found in nvm_format.h" % name)
            return int(m.group(1), 0)
        self.header = const("NVM_HEADER_SIZE")
        self.entry = const("NVM_SECTION_ENTRY_SIZE")
        self.fn_entry = const("NVM_FUNCTION_ENTRY_SIZE")
        self.code = enumv("NVM_SECTION_CODE")
        self.functions = enumv("NVM_SECTION_FUNCTIONS")
        self.strings = enumv("NVM_SECTION_STRINGS")
        if self.header < 20 or self.entry != 12:
            raise InfraError("unexpected .nvm layout constants")

    def sections(self, blob):
        if len(blob) < self.header or blob[:3] != b"NVM":
            raise InfraError("not an .nvm file")
        count = struct.unpack_from("<I", blob, 16)[0]
        out = {}
        for i in range(count):
            ty, off, size = struct.unpack_from("<III", blob, self.header + i * self.entry)
            if off + size > len(blob):
                raise InfraError("section outside file")
            out[ty] = blob[off:off + size]
        return out


class Compiler:
    def __init__(self, ctx, tree, layout):
        self.ctx, self.tree, self.layout = ctx, tree, layout
        self.virt = os.path.join(tree, "bin", "nano_virt")
        self.vm = os.path.join(tree, "bin", "nano_vm")
        self.n = 0
        self.dir = ctx.dir("c07")
        self.env = dict(os.environ)
        self.env.update(ctx.env())

    def compile(self, tag, text):
        """-> dict(ok, code, funcs, blob, err, src)"""
        src = os.path.join(self.dir, tag + ".nano")
        out = os.path.join(self.dir, tag + ".nvm")
        with open(src, "w") as f:
            f.write(text)
        if os.path.exists(out):
            os.unlink(out)
        try:
            p = subprocess.run([self.virt, src, "--emit-nvm", "-o", out], stdout=subprocess.PIPE,
                               stderr=subprocess.PIPE, env=self.env, cwd=self.dir, timeout=120)
        except subprocess.TimeoutExpired:
            return dict(ok=False, err="timeout", rc=None, src=src, phase="timeout")
        err = p.stderr.decode(errors="replace")
        if p.returncode != 0 or not os.path.exists(out):
            phase = "typecheck" if "type check failed" in err else "parser" if "parser failed" in err else \
                    "codegen" if "codegen failed" in err else "other"
            if p.returncode < 0:
                phase = "signal%d" % -p.returncode
            return dict(ok=False, err=[l for l in err.splitlines() if not l.startswith("Warning")][:6],
                        rc=p.returncode, src=src, phase=phase)
        blob = open(out, "rb").read()
        s = self.layout.sections(blob)
        return dict(ok=True, blob=blob, code=s.get(self.layout.code), funcs=s.get(self.layout.functions),
                    src=src, nvm=out)

    def run(self, nvm):
        try:
            p = subprocess.run([self.vm, nvm], stdout=subprocess.PIPE, stderr=subprocess.PIPE, env=self.env,
                               cwd=self.dir, timeout=120)
        except subprocess.TimeoutExpired:
            return None, "timeout"
        return p.stdout.decode(errors="replace").splitlines(), p.returncode


def same_code(x, y):
    return x["ok"] and y["ok"] and x["code"] == y["code"] and x["funcs"] == y["funcs"]


def observed(x):
    """what a compile produced, reduced to what the property talks about"""
    return ("code", x["code"], x["funcs"]) if x["ok"] else ("rejected", x["phase"])


# ------------------------------------------------------------------ judging one case on its own
def judge_single(cc, tag, rec, findings):
    """Compile the two spellings of one tree alone.  -> (verdict, detail) with verdict in
    'same' | 'known:<id>' | 'violation'"""
    one = [(rec, 0)]
    a = cc.compile(tag + ".p", program(one, "prefix"))
    b = cc.compile(tag + ".i", program(one, "infix"))
    if not a["ok"]:
        return "violation", dict(what="the prefix spelling of a well-typed tree is rejected (%s)" % a["phase"],
                                 err=a["err"])
    if same_code(a, b):
        oa, ra = cc.run(a["nvm"])
        if rec["val"] not in ("div0", "skip") and (ra != 0 or oa != [rec["val"]]):
            return "violation", dict(what="both spellings compile to the same code but it computes %r (exit %r), "
                                          "the specification prescribes %s" % (oa, ra, rec["val"]))
        return "same", None
    # different: is it exactly what the known deviation predicts?
    if rec.get("dev") and rec["dev"] != "?":
        d = cc.compile(tag + ".d", program(one, "dev"))
        if observed(d) == observed(b):
            for f in findings:
                m = f.get("match", {})
                if m.get("switch") == "PARSE_POSTFIX_ON_LEFT" and rec["shape"] in m.get("shapes", []):
                    return "known:" + f["id"], dict(
                        what="infix %r is compiled as %r instead of %r (%s)" % (
                            rec["infix"], rec["dev"], rec["prefix"],
                            "rejected: " + b["phase"] if not b["ok"] else "different code"))
    if not b["ok"] and b["phase"] == "parser" and any("depth exceeded" in l for l in (b.get("err") or [])):
        # the property is quantified up to the parser's nesting limit: the infix spelling of a deep right comb needs two
        # levels of the recursion budget per parenthesis; a rejection that names the limit is outside the property
        return "limit", dict(what="beyond the parser's nesting limit")
    if b["ok"]:
        what = "the two spellings compile to different code"
    else:
        what = "the infix spelling is rejected (%s) while the prefix spelling is accepted" % b["phase"]
    return "violation", dict(what=what, err=None if b["ok"] else b["err"])


# ------------------------------------------------------------------ main entry
def generate(ctx, tier):
    """Run TLC; returns (records, model-checking summary)"""
    runs = [("NanoSyntax_t3", True), ("NanoSyntax_t2x", True), ("NanoSyntax_t3pq" if tier == "quick" else "NanoSyntax_t3p", True),
            ("NanoSyntax_d2q" if tier == "quick" else "NanoSyntax_d2", True)]
    if tier == "thorough":
        runs += [("NanoSyntax_comb", True)]
        # NanoSyntax_d3 (all reduced depth-3 trees, model check only) is kept as a configuration but not run:
        # TLC needs > 15 min on this machine to enumerate ~1.3 million deep records
    recs, states, trans = [], 0, 0
    for cfg, emits in runs:
        r = tlc(ctx, "NanoSyntax", cfg, timeout=3000, xss="512m", xmx="24g" if cfg.endswith("d3") else "12g",
                extra=("-maxSetSize", "100000000") if cfg.endswith("d3") else ())
        if r.violated:
            # the specified notation itself is ambiguous on a printed form: our printers/spec are wrong
            raise InfraError("NanoSyntax/%s: %s violated -- the notation model is inconsistent:\n%s" % (
                cfg, r.violated, "\n".join(r.trace)[:2000]))
        if emits and len(r.records) * 2 != r.distinct:
            raise InfraError("NanoSyntax/%s: %d records for %d states" % (cfg, len(r.records), r.distinct))
        recs += r.records
        states += r.distinct
        trans += r.generated
    # the demonstration that the model check has teeth: the naive printer is ambiguous (DESIGN appendix D)
    if tier == "thorough":
        r = tlc(ctx, "NanoSyntax", "NanoSyntax_naive", timeout=1200, xss="512m")
        if r.violated != "Unambiguous":
            raise InfraError("the naive infix printer was expected to be ambiguous; TLC says %r" % r.violated)
    return recs, states, trans


def run(ctx):
    tier = ctx.tier
    tree = ctx.build("plain", targets=("nano_virt", "nano_vm"))
    layout = NvmLayout(tree)
    cc = Compiler(ctx, tree, layout)
    findings = findings_for(PROP)
    recs, states, trans = generate(ctx, tier)
    # spellings the lexical rules make equivalent (emitted for the families t3 and t2x): each is one more
    # "infix" text of the same tree -- tight (no blanks around symbolic infix operators), cmt (comments and tabs
    # between tokens), pcmt (the prefix form with comments and tabs)
    extra = []
    for r in recs:
        for style in ("tight", "cmt", "pcmt"):
            if r.get(style) and r[style] != r["infix"] and r[style] != r["prefix"]:
                x = dict(r)
                x["infix"], x["fam"], x["dev"] = r[style], r["fam"] + ":" + style, ""
                extra.append(x)
    recs = recs + extra
    seen, cases = set(), []
    for r in recs:
        key = (r["prefix"], r["infix"])
        if key in seen:
            continue
        seen.add(key)
        cases.append(r)
    cases.sort(key=lambda r: (r["fam"], r["prefix"]))
    log("C07: %d trees from TLC (%d distinct spelling pairs)" % (len(recs), len(cases)))

    # cases the known deviation touches are batched among themselves (one rejected expression takes its
    # ~100 neighbours with it); every case of a batch that is not clean is then judged on its own
    plain = [(r, i) for i, r in enumerate(cases) if not r["dev"]]
    flagged = [(r, i) for i, r in enumerate(cases) if r["dev"]]
    batches = [plain[k:k + BATCH] for k in range(0, len(plain), BATCH)] + \
              [flagged[k:k + BATCH] for k in range(0, len(flagged), BATCH)]
    stats = dict(pairs=len(cases), batches=len(batches), flagged=len(flagged), compiles=0, runs=0,
                 identical=0, values_checked=0, known=0, unspecified_div0=0)
    suspects = []

    def do_batch(bi):
        b = batches[bi]
        tag = "b%05d" % bi
        x = cc.compile(tag + ".p", program(b, "prefix"))
        y = cc.compile(tag + ".i", program(b, "infix"))
        if not same_code(x, y):
            return bi, "diff", None
        ox, rx = cc.run(x["nvm"])
        oy, ry = cc.run(y["nvm"])
        want = [r["val"] for r, _ in b if r["val"] not in ("div0", "skip")]
        if ox != oy or rx != ry or rx != 0 or ox != want:
            return bi, "value", (ox, oy, rx, ry, want)
        for t in (x, y):
            for k in ("src", "nvm"):
                try:
                    os.unlink(t[k])
                except OSError:
                    pass
        return bi, "ok", len(want)

    with ThreadPoolExecutor(max_workers=NCPU) as ex:
        for bi, verdict, extra in ex.map(do_batch, range(len(batches))):
            stats["compiles"] += 2
            if verdict == "ok":
                stats["identical"] += len(batches[bi])
                stats["values_checked"] += extra
                stats["runs"] += 2
            else:
                suspects += batches[bi]
    stats["unspecified_div0"] = sum(1 for r in cases if r["val"] == "div0")
    log("C07: %d batches done, %d cases to look at individually (%d flagged by the deviation switch)" % (
        len(batches), len(suspects), len(flagged)))

    reported = [0]
    viol_total = [0]
    known_hits = {}

    def do_single(item):
        rec, i = item
        return item, judge_single(cc, "s%06d" % i, rec, findings)

    samples_known = []
    todo = suspects
    with ThreadPoolExecutor(max_workers=NCPU) as ex:
        for (rec, i), (verdict, detail) in ex.map(do_single, todo):
            stats["compiles"] += 2
            if verdict == "same":
                stats["identical"] += 1
                if rec["val"] not in ("div0", "skip"):
                    stats["values_checked"] += 1
            elif verdict == "limit":
                stats["beyond_nesting_limit"] = stats.get("beyond_nesting_limit", 0) + 1
            elif verdict.startswith("known:"):
                fid = verdict[6:]
                known_hits[fid] = known_hits.get(fid, 0) + 1
                stats["known"] += 1
                ctx.known(fid, detail["what"])
                if len(samples_known) < 3:
                    samples_known.append(dict(infix=rec["infix"], prefix=rec["prefix"], read_as=rec["dev"]))
            else:
                viol_total[0] += 1
                if reported[0] < MAX_REPORT:
                    reported[0] += 1
                    art = dict(property=PROP, record=rec, what=detail["what"], diagnostics=detail.get("err"),
                               prefix_program=program([(rec, 0)], "prefix"), infix_program=program([(rec, 0)], "infix"))
                    path = ctx.save_replay("case-%s.json" % sha(rec["prefix"] + "|" + rec["infix"]),
                                           json.dumps(art, indent=1))
                    ctx.violation("%s: prefix %r / infix %r" % (detail["what"], rec["prefix"], rec["infix"]), path)
    if viol_total[0] > reported[0]:
        log("C07: %d further violating cases not reported individually" % (viol_total[0] - reported[0]))
        ctx.violations += [dict(what="(counted only)", replay="")] * (viol_total[0] - reported[0])

    # stale known findings: witness no longer fails
    for f in findings:
        w = f.get("match", {}).get("witness_record")
        if w and f["id"] not in known_hits:
            v, _ = judge_single(cc, "w" + sha(w["infix"]), w, findings)
            if v == "same":
                log("known finding %s is stale: its witness %r now compiles like the prefix form" % (f["id"], w["infix"]))

    import random
    rnd = random.Random(ctx.seed)
    samples = [dict(prefix=r["prefix"], infix=r["infix"], value=r["val"], family=r["fam"])
               for r in rnd.sample(cases, min(8, len(cases)))]
    cov = dict(
        programs=stats["pairs"],
        disagreements_checked=stats["pairs"],
        samples=samples,
        evaluations=stats["pairs"],
        distinct_nontrivial=sum(1 for r in cases if r["prefix"] != r["infix"]),
        rule="every expression tree TLC enumerates from NanoSyntax.tla (operator triples with distinct operands, "
             "the same with one operand replaced by a postfix form, all typed trees of depth <= 2%s); distinct = "
             "distinct (prefix text, infix text) pairs; non-trivial = the two spellings differ textually" % (
                 ", combs up to 450 operators" if tier == "thorough" else ""),
        exhaustive=True,
        states=states, transitions=trans,
        identical_bytecode=stats["identical"], values_checked_against_spec=stats["values_checked"],
        value_unspecified_division_by_zero=stats["unspecified_div0"],
        cases_touched_by_known_deviation=stats["flagged"], known_finding_cases=known_hits,
        known_finding_samples=samples_known,
        compiles=stats["compiles"], batches=stats["batches"], violations_found=viol_total[0],
        unspecified=["a parenthesised infix operand that begins with a unary operator, e.g. x * (-a + b): "
                     "'(' followed by an operator token is the prefix form; the printers write (- a) there",
                     "call arguments that begin with '-': (f a -b) reads as one argument; printers write (- b)"],
    )
    assumptions = [
        "The operand alphabet is fixed (variables a b c d / u v w s, p.x, o.p.y, t.0, calls f h z g mk); "
        "equality of bytecode is checked per tree, not for arbitrary operand expressions.",
        "Spacing: tokens are separated by blanks except after '(' , before ')' and around '.'; the lexical rule "
        "that '-' followed by a digit is a literal (a -1) belongs to C09/FrontEnd, not to this property.",
        "Notation that the documents leave ambiguous (see coverage.unspecified) is not compared.",
    ]
    return "translation_validation", cov, assumptions


def replay(ctx, path):
    art = json.load(open(path))
    rec = art["record"]
    tree = ctx.build("plain", targets=("nano_virt", "nano_vm"))
    cc = Compiler(ctx, tree, NvmLayout(tree))
    v, d = judge_single(cc, "replay", rec, findings_for(PROP))
    print("prefix: %s\ninfix:  %s\nverdict: %s %s" % (rec["prefix"], rec["infix"], v, d or ""))
    if v == "violation":
        print("VIOLATION property=%s replay=%s" % (PROP, path))
        return 1
    return 0
