"""C11 - instruction encoding and the textual assembly form are exact inverses.

Oracle: NanoISA.tla (codec laws) and NanoISAText.tla (text form) evaluated by TLC on constants
extracted from the code under test; this file only builds, runs, converts and compares.
"""
import glob
import json
import os

from lib.common import InfraError, VERIF, findings_for, log, sh, sha, tlc
from props.isa_common import extract_isa_constants, hexs, run_probe_cases, write_mc

CONSISTENCY = ("EnumEqualsTable", "TableSelfIndexed", "KindsKnown", "FitsMaxSize", "NamesUnique")
LAWS = ("DecodeOfEncode", "PrefixesRefused", "EncodeOfDecode", "NonOpcodeRefused")


def workers(ctx):
    return None if os.environ.get("VERIF_JOBS") is None else int(os.environ["VERIF_JOBS"])


# ------------------------------------------------------------------ codec
def judge_codec_case(case, res):
    """Compare what the real codec did with the law the spec attached to the case.
    Returns (list of violated clauses, drift flag)."""
    bad = []
    drift = False
    args = [hexs(a) for a in case["args"]]
    if case["t"] == "enc":
        n = res["enc_n"]
        d = res["dec"]
        if not res["shape_ok"]:
            bad.append("operand shapes of the case do not fit the real table")
        if n == 0:
            bad.append("isa_encode refused a well-formed instruction")
        else:
            if d["n"] != n:
                bad.append("isa_decode consumed %d of the %d encoded bytes" % (d["n"], n))
            if d["n"]:
                if d["op"] != case["op"]:
                    bad.append("decoded opcode %d != encoded %d" % (d["op"], case["op"]))
                if d["args"] != args:
                    bad.append("decoded operands %s != encoded %s" % (d["args"], args))
                if d["kinds"] != case["kinds"] or d["count"] != len(args):
                    bad.append("decoded operand kinds %s != table %s" % (d["kinds"], case["kinds"]))
                if d["blen"] != d["n"]:
                    bad.append("byte_length %d != consumed %d" % (d["blen"], d["n"]))
            if res["dec_junk_n"] != n:
                bad.append("with trailing bytes isa_decode consumed %d instead of %d" % (res["dec_junk_n"], n))
            for k, r in enumerate(res["trunc"]):
                if r != 0:
                    bad.append("prefix of length %d of a %d-byte instruction decoded (returned %d)" % (k, n, r))
        drift = res["enc"] != hexs(case["bytes"])
    elif case["t"] == "dec":
        d = res["dec"]
        b = hexs(case["bytes"])
        if d["n"] == 0:
            bad.append("isa_decode refused a complete instruction")
        else:
            if d["n"] * 2 > len(b):
                bad.append("isa_decode consumed more than it was given")
            if res["re_n"] != d["n"] or res["re"] != b[:2 * d["n"]]:
                bad.append("re-encoded %s != decoded prefix %s" % (res["re"], b[:2 * d["n"]]))
            drift = d["n"] != case["n"] or d["args"] != args
    elif case["t"] == "bad":
        if res["dec"]["n"] != 0:
            bad.append("byte 0x%02x is not an opcode but isa_decode accepted it (n=%d)" % (case["op"], res["dec"]["n"]))
        if res["re_n"] != 0:
            bad.append("byte 0x%02x is not an opcode but isa_encode produced %d bytes" % (case["op"], res["re_n"]))
        if res["info"]:
            bad.append("byte 0x%02x is not an opcode but isa_get_info knows it" % case["op"])
    return bad, drift


def run_codec(ctx, probe, tab, opcodes, cov):
    deep = ctx.tier == "thorough"
    mc = write_mc(ctx, "NanoISA_MC", "NanoISA", tab, opcodes, deep)
    try:
        r = tlc(ctx, "NanoISA_MC", cfg="NanoISA", workers=workers(ctx), timeout=1500, cwd_files=[mc])
    except InfraError as e:
        # a constant-level invariant (consistency of the extracted table) that is false is reported by TLC
        # before the search starts, with its own wording and exit code
        import re
        mm = re.search(r"The invariant of (\w+) is equal to FALSE", str(e))
        if not (mm and mm.group(1) in CONSISTENCY):
            raise
        path = ctx.save_replay("codec-model-%s.txt" % mm.group(1),
                               "invariant %s of NanoISA.tla is false for the constants extracted from the tree\n"
                               "opcodes in isa.h: %s\nvalid table entries: %s\n" % (
                                   mm.group(1), opcodes, [e_["b"] for e_ in tab["table"] if e_["valid"]]))
        ctx.violation("opcode enum / instruction table inconsistent: %s (enum-only %s, table-only %s)" % (
            mm.group(1), sorted(set(opcodes) - {e_["b"] for e_ in tab["table"] if e_["valid"]}),
            sorted({e_["b"] for e_ in tab["table"] if e_["valid"]} - set(opcodes))), path)
        return
    if r.violated:
        # the spec is closed except for the extracted constants: a failing invariant is a fact about the code
        trace = "\n".join(r.trace[:2])
        path = ctx.save_replay("codec-model-%s.txt" % r.violated,
                               "invariant %s of NanoISA.tla is false for the constants extracted from the tree\n%s\n%s"
                               % (r.violated, trace, r.out[-3000:]))
        if r.violated in CONSISTENCY:
            ctx.violation("opcode enum / instruction table inconsistent: %s" % r.violated, path)
        else:
            ctx.violation("codec law %s fails on the extracted table" % r.violated, path)
        return
    cases = r.records
    if not cases:
        raise InfraError("NanoISA.tla emitted no cases")
    cases.sort(key=lambda c: (c["t"], c["op"], c["args"], c["bytes"]))
    inp = os.path.join(ctx.dir("codec"), "cases.ndjson")
    with open(inp, "w") as f:
        for i, c in enumerate(cases):
            f.write(json.dumps(dict(id=i, t=c["t"], op=c["op"], args=c["args"], bytes=c["bytes"])) + "\n")
    results, crash = run_probe_cases(ctx, [probe, "cases", inp], len(cases))
    if crash:
        c = cases[crash["id"]] if crash["id"] < len(cases) else None
        path = ctx.save_replay("codec-crash-%d.json" % crash["id"], json.dumps(dict(kind="codec", case=c, crash=crash), indent=1))
        ctx.violation("codec: the real encoder/decoder died (rc %s) on case %s instead of answering" % (crash["rc"], json.dumps(c)[:200]), path)
        cases = cases[:crash["id"]]
    nbad = ndrift = 0
    by_t = {}
    distinct = set()
    for i, c in enumerate(cases):
        by_t[c["t"]] = by_t.get(c["t"], 0) + 1
        distinct.add(sha(json.dumps([c["t"], c["op"], c["args"], c["bytes"]])))
        bad, drift = judge_codec_case(c, results[i])
        ndrift += bool(drift)
        if bad:
            nbad += 1
            if nbad <= 5:
                path = ctx.save_replay("codec-case-%d.json" % i, json.dumps(dict(kind="codec", case=c, observed=results[i],
                                                                                 violated=bad), indent=1))
                ctx.violation("codec: %s (case %s op=0x%02x args=%s)" % (bad[0], c["t"], c["op"],
                                                                          [hexs(a) for a in c["args"]]), path)
    cov["codec"] = dict(cases=len(cases), by_kind=by_t, distinct=len(distinct), failed=nbad, drift=ndrift,
                        states=r.distinct, transitions=r.generated, opcodes=len(opcodes),
                        non_opcode_bytes=256 - len(opcodes), deep_patterns=deep)
    cov.setdefault("samples", []).extend(
        [dict(kind="codec", case=cases[i], observed=results[i]) for i in (0, len(cases) // 2, len(cases) - 1)])


# ------------------------------------------------------------------ text form
def dev_switches(prop="C11"):
    """deviation switch -> finding id, for the findings currently listed as known"""
    return {f["switch"]: f["id"] for f in findings_for(prop) if f.get("switch")}


def core_of_dump(d):
    """probe dump {strings: [hex], functions: [...], code: hex} -> comparable core (byte lists)"""
    return dict(strings=[list(bytes.fromhex(x)) for x in d["strings"]],
                functions=[{k: f[k] for k in ("name", "arity", "locals", "upvalues", "off", "len")} for f in d["functions"]],
                code=list(bytes.fromhex(d["code"])))


def core_of_spec(m):
    return dict(strings=[list(x) for x in m["strings"]],
                functions=[{k: f[k] for k in ("name", "arity", "locals", "upvalues", "off", "len")} for f in m["functions"]],
                code=list(m["code"]))


def observed_outcome(res):
    """what the real disasm_module + asm_assemble did to the module the probe was given"""
    if not res.get("disasm_ok"):
        return dict(kind="refused", why="disasm_module returned NULL")
    if not res["asm_ok"]:
        return dict(kind="refused", why="%s (line %d: %r)" % (res.get("asm_msg"), res.get("asm_line"), res.get("asm_text_line")))
    a, b = core_of_dump(res["m"]), core_of_dump(res["m2"])
    if a == b:
        return dict(kind="same")
    diff = [k for k in ("strings", "functions", "code") if a[k] != b[k]]
    return dict(kind="differs", fields=diff, core=b)


def explains(pred, obs):
    if pred["kind"] != obs["kind"]:
        return False
    return obs["kind"] != "differs" or core_of_spec(pred) == obs["core"]


def judge_text(ctx, tag, m_core, res, pred, blame, switches, stats, label):
    """property: outcome must be 'same'.  A failure is known only if the spec, with listed deviations, predicts it.
    Failures that RT(m, Dev) does not predict are queued for the second pass (resolve_pending)."""
    obs = observed_outcome(res)
    stats["total"] += 1
    if obs["kind"] == "same":
        if pred["kind"] != "same":
            stats["stale"].append(label)          # a listed deviation no longer shows: cue to mark it fixed
        return
    stats["failed"] += 1
    if blame and explains(pred, obs) and all(d in switches for d in blame):
        for d in blame:
            ctx.known(switches[d], "asm(disasm(m)) %s: %s; first witness %s" % (obs["kind"], d, label))
            stats["known"][d] = stats["known"].get(d, 0) + 1
        return
    stats["pending"].append(dict(tag=tag, label=label, module=m_core, res=res, obs=obs, pred=pred, blame=blame))


def resolve_pending(ctx, mc, switches, stats):
    """second TLC pass: is the observed failure RT(m, D) for some subset D of the listed deviations?"""
    pend = stats["pending"]
    if not pend:
        return
    alts = {}
    todo = [q for q in pend if "strings" in q["module"]][:200]
    if todo and switches:
        f = os.path.join(ctx.dir("text"), "c11_pending_%d.ndjson" % len(ctx.tlc_runs))
        with open(f, "w") as fh:
            for q in todo:
                fh.write(json.dumps(q["module"]) + "\n")
        r = tlc(ctx, "NanoISA_MC", cfg="NanoISAText", workers=workers(ctx), timeout=1700, cwd_files=[mc, f],
                constants=text_constants(ctx, switches, os.path.basename(f), alts=True), xss="900m")
        if r.violated:
            raise InfraError("NanoISAText.tla second pass: %s\n%s" % (r.violated, r.out[-2000:]))
        alts = {v["idx"]: v["alts"] for v in r.records}
    for k, q in enumerate(todo):
        q["alts"] = sorted(alts.get(k + 1, []), key=lambda a: len(a["dev"]))
    for q in pend:
        hit = next((a for a in q.get("alts", []) if a["blame"] and explains(a["pred"], q["obs"])
                    and all(d in switches for d in a["blame"])), None)
        if hit:
            for d in hit["blame"]:
                ctx.known(switches[d], "asm(disasm(m)) %s: %s; first witness %s" % (q["obs"]["kind"], d, q["label"]))
                stats["known"][d] = stats["known"].get(d, 0) + 1
            stats["second_pass_explained"] = stats.get("second_pass_explained", 0) + 1
            continue
        stats["violations"] += 1
        if stats["violations"] <= 6:
            art = dict(kind="text", tag=q["tag"], label=q["label"], module=q["module"], observed=q["obs"],
                       predicted=dict(kind=q["pred"]["kind"], blame=sorted(q["blame"])), text=q["res"].get("text"))
            path = ctx.save_replay("text-%s-%s.json" % (q["tag"], sha(json.dumps(q["module"], sort_keys=True))), json.dumps(art, indent=1))
            ctx.violation("asm_assemble(disasm_module(m)) != m (%s, %s): observed %s %s; no subset of the listed deviations predicts it "
                          "(all of them together predict %s)" % (q["tag"], q["label"], q["obs"]["kind"],
                                                                 q["obs"].get("why") or q["obs"].get("fields"), q["pred"]["kind"]), path)
    stats["pending"] = []


def text_constants(ctx, switches, real_file="", alts=False):
    deep = ctx.tier == "thorough"
    return {"Dev": "{" + ", ".join('"%s"' % d for d in sorted(switches)) + "}",
            "MaxBody": "3", "MaxHostile": "3" if deep else "2",
            "RealFile": '"%s"' % real_file, "Alts": "TRUE" if alts else "FALSE"}


def new_stats():
    return dict(total=0, failed=0, violations=0, known={}, stale=[], pending=[])


def run_text_generated(ctx, probe, mc, switches, cov):
    r = tlc(ctx, "NanoISA_MC", cfg="NanoISAText", workers=workers(ctx), timeout=1700, cwd_files=[mc],
            constants=text_constants(ctx, switches), xss="512m")
    if r.violated == "ASSUME":
        raise InfraError("NanoISAText.tla: an ASSUME about the extracted constants is false (I32/F64 operand sizes): "
                         "the text model does not apply to this tree\n" + r.out[-1500:])
    if r.violated:
        raise InfraError("NanoISAText.tla violates its own invariant %s: the model of the text form is wrong\n%s" % (
            r.violated, "\n".join(r.trace[:2])))
    cases = r.records
    if not cases:
        raise InfraError("NanoISAText.tla emitted no modules")
    cases.sort(key=lambda c: (c["fam"], json.dumps(c["m"], sort_keys=True)))
    inp = os.path.join(ctx.dir("text"), "modules.ndjson")
    with open(inp, "w") as f:
        for i, c in enumerate(cases):
            m = c["m"]
            f.write(json.dumps(dict(id=i, strings=m["strings"], functions=m["functions"], code=m["code"], flags=1, entry=0)) + "\n")
    results, crash = run_probe_cases(ctx, [probe, "rt", inp], len(cases))
    if crash:
        c = cases[crash["id"]] if crash["id"] < len(cases) else None
        path = ctx.save_replay("text-crash-%d.json" % crash["id"], json.dumps(dict(kind="text", module=core_of_spec(c["m"]) if c else None,
                                                                                   crash=crash), indent=1))
        ctx.violation("text form: disasm_module/asm_assemble died (rc %s) on module %s" % (crash["rc"], json.dumps(c["m"])[:200] if c else "?"), path)
        cases = cases[:crash["id"]]
    stats = new_stats()
    fams = {}
    distinct = set()
    for i, c in enumerate(cases):
        fams[c["fam"]] = fams.get(c["fam"], 0) + 1
        core = core_of_spec(c["m"])
        distinct.add(sha(json.dumps(core, sort_keys=True)))
        res = results[i]
        if core_of_dump(res["m"]) != core:
            raise InfraError("module %d was not built as specified by the probe" % i)
        judge_text(ctx, c["fam"], core, res, c["pred"], c["blame"], switches, stats,
                   "%s code=%s strings=%s" % (c["fam"], hexs(c["m"]["code"])[:80], [hexs(x)[:40] for x in c["m"]["strings"]]))
    resolve_pending(ctx, mc, switches, stats)
    cov["text_generated"] = dict(second_pass_explained=stats.get("second_pass_explained", 0), modules=len(cases), by_family=fams, distinct=len(distinct), failed=stats["failed"],
                                 known_by_switch=stats["known"], violations=stats["violations"],
                                 predicted_failure_not_observed=len(stats["stale"]), stale_samples=stats["stale"][:5],
                                 states=r.distinct, transitions=r.generated)
    mid = len(cases) // 2
    cov.setdefault("samples", []).append(dict(kind="text", fam=cases[mid]["fam"], module=cases[mid]["m"],
                                              pred=cases[mid]["pred"]["kind"], text=results[mid].get("text")))
    return len(cases)


def compile_corpus(ctx, tree):
    """nano_virt --emit-nvm on every corpus program (/verif/corpus/isa and /verif/corpus/c10)"""
    out = ctx.dir("nvm")
    srcs = sorted(glob.glob(os.path.join(VERIF, "corpus", "isa", "*.nano")) +
                  glob.glob(os.path.join(VERIF, "corpus", "c10", "*.nano")))
    if ctx.tier == "thorough":
        srcs += sorted(glob.glob(os.path.join(VERIF, "corpus", "isa", "thorough", "*.nano")))
        srcs += sorted(glob.glob(os.path.join(tree, "tests", "nl_*.nano")) + glob.glob(os.path.join(tree, "examples", "language", "*.nano")))
    files, skipped = [], []
    for s in srcs:
        o = os.path.join(out, "%s-%s.nvm" % (os.path.basename(os.path.dirname(s)), os.path.basename(s)[:-5]))
        p = sh([os.path.join(tree, "bin", "nano_virt"), s, "--emit-nvm", "-o", o], cwd=ctx.dir("cwd"), env=ctx.env(),
               timeout=120, check=False)
        if p.returncode == 0 and os.path.exists(o):
            files.append((s, o))
        else:
            skipped.append(os.path.relpath(s, VERIF) if s.startswith(VERIF) else s)
    return files, skipped


def run_text_real(ctx, probe, tree, mc, switches, cov):
    files, skipped = compile_corpus(ctx, tree)
    own = [s for s in skipped if s.startswith("corpus/")]
    if own:
        raise InfraError("corpus programs no longer compile with nano_virt --emit-nvm: %s" % own)
    if not files:
        raise InfraError("no corpus program compiled")
    p = sh([probe, "rtfile"] + [o for _, o in files], env=ctx.env(), timeout=600, check=False)
    if p.returncode != 0:
        raise InfraError("isa_probe rtfile failed rc=%d: %s" % (p.returncode, p.stderr[-2000:]))
    results = [json.loads(l) for l in p.stdout.splitlines()]
    if len(results) != len(files) or not all(x.get("load_ok") for x in results):
        raise InfraError("isa_probe rtfile could not load every compiled module")
    # the real modules are judged by the spec: RT(m, Dev) evaluated by TLC on the dumped module
    real = os.path.join(ctx.dir("text"), "c11_real_modules.ndjson")
    with open(real, "w") as f:
        for x in results:
            f.write(json.dumps(core_of_dump(x["m"])) + "\n")
    r = tlc(ctx, "NanoISA_MC", cfg="NanoISAText", workers=workers(ctx), timeout=1700, cwd_files=[mc, real],
            constants=text_constants(ctx, switches, "c11_real_modules.ndjson"), xss="900m")
    if r.violated:
        raise InfraError("NanoISAText.tla on real modules: %s violated\n%s" % (r.violated, r.out[-2000:]))
    verdicts = {v["idx"]: v for v in r.records}        # idx is 1-based (position in the ndjson file)
    stats = new_stats()
    for k, ((src, _), x) in enumerate(zip(files, results)):
        pick = verdicts.get(k + 1)
        if pick is None:
            raise InfraError("no spec verdict for %s" % src)
        if pick["ideal"] != "same":
            raise InfraError("the deviation-free text model is not the identity on %s" % src)
        judge_text(ctx, "real", dict(core_of_dump(x["m"]), source=src), x, pick["pred"], pick["blame"], switches, stats, os.path.relpath(src, VERIF) if src.startswith(VERIF) else src)
    resolve_pending(ctx, mc, switches, stats)
    cov["text_real"] = dict(second_pass_explained=stats.get("second_pass_explained", 0), modules=len(files), skipped_not_compilable=len(skipped), failed=stats["failed"],
                            known_by_switch=stats["known"], violations=stats["violations"],
                            code_bytes=sum(len(core_of_dump(x["m"])["code"]) for x in results),
                            states=r.distinct, transitions=r.generated)
    cov.setdefault("samples", []).append(dict(kind="real", source=files[0][0], outcome=observed_outcome(results[0])["kind"]))
    return len(files)


def run(ctx):
    probe = ctx.probe("isa_probe")
    tab, enum, opcodes = extract_isa_constants(ctx, probe)
    cov = {}
    run_codec(ctx, probe, tab, opcodes, cov)
    switches = dev_switches()
    tree = os.path.dirname(os.path.dirname(probe))
    mc = write_mc(ctx, "NanoISA_MC", "NanoISAText", tab, opcodes, ctx.tier == "thorough")
    n_gen = run_text_generated(ctx, probe, mc, switches, cov)
    n_real = run_text_real(ctx, probe, tree, mc, switches, cov)
    states = sum(t["distinct"] for t in ctx.tlc_runs)
    trans = sum(t["generated"] for t in ctx.tlc_runs)
    cov.update(states=states, transitions=trans, traces_validated_against_impl=cov.get("codec", {}).get("cases", 0) + n_gen + n_real,
               exhaustive=True)
    return "model_checking", cov, ["the opcode table reported by isa_get_info and the enum in isa.h are the only "
                                   "sources of the constants"]


def replay(ctx, path):
    """./check C11 --replay <artifact>: re-run one saved case against the current tree (property only, no suppression)"""
    art = json.load(open(path))
    probe = ctx.probe("isa_probe")
    d = ctx.dir("replay")
    if art.get("kind") == "codec":
        c = art["case"]
        inp = os.path.join(d, "case.ndjson")
        with open(inp, "w") as f:
            f.write(json.dumps(dict(id=0, t=c["t"], op=c["op"], args=c["args"], bytes=c["bytes"])) + "\n")
        res = json.loads(sh([probe, "cases", inp], env=ctx.env()).stdout.splitlines()[0])
        bad, _ = judge_codec_case(c, res)
        print(json.dumps(dict(case=c, observed=res, violated=bad), indent=1))
        if bad:
            ctx.violation("codec: " + bad[0], path)
    elif art.get("kind") == "text":
        m = art["module"]
        if "strings" in m:
            inp = os.path.join(d, "module.ndjson")
            with open(inp, "w") as f:
                f.write(json.dumps(dict(id=0, strings=m["strings"], functions=m["functions"], code=m["code"], flags=1, entry=0)) + "\n")
            res = json.loads(sh([probe, "rt", inp], env=ctx.env()).stdout.splitlines()[0])
        else:
            tree = os.path.dirname(os.path.dirname(probe))
            o = os.path.join(d, "p.nvm")
            sh([os.path.join(tree, "bin", "nano_virt"), m["source"], "--emit-nvm", "-o", o], cwd=d, env=ctx.env())
            res = json.loads(sh([probe, "rtfile", o], env=ctx.env()).stdout.splitlines()[0])
        obs = observed_outcome(res)
        print(res.get("text", ""))
        print(json.dumps({k: v for k, v in obs.items() if k != "core"}, indent=1))
        if obs["kind"] != "same":
            ctx.violation("asm_assemble(disasm_module(m)) != m: %s %s" % (obs["kind"], obs.get("why") or obs.get("fields")), path)
    else:
        print(open(path).read())
        raise InfraError("not a C11 replay artifact: %s" % path)
    return 1 if ctx.violations else 0
