"""C16 - a failing FFI co-process is contained by the VM.

Model:   spec/CopProtocol.tla (VM + co-process + OS, one injected fault per behaviour), exhaustive:
         never Signaled, terminal => reaped, printed prefix intact, outcome allowed, no stall (deadlock check).
         spec/CopCodec.tla "hostile" mode: the decoder never leaves its buffer on any byte string of a bounded shape.
Replay:  every (step, kind) scenario x two schedules -> standins/fake_cop (the real cop_main.c + the scripted
         fault, bytes of bad messages computed by the spec) as `nano_cop` first on PATH of `nano_vm --isolate-ffi`;
         observed (exit/signal, stdout, error reported, processes left unreaped) must be a member of the spec's
         outcome set for that scenario.  Hostile buffers -> probes/cop_probe (real cop_deserialize_value, guard page).
Traces:  H5 events of every replayed run (when the hook is compiled in) -> spec/CopTrace.tla.
"""
import json
import os

from lib.common import InfraError, findings_for, log, parallel_map, sh, sha, tlc
from props import cop_lib as L

def program(k):
    return "fn main() -> int {\n    (println \"before\")\n" + "    (println (digit_value 55))\n" * k + \
           "    (println \"after\")\n    return 0\n}\nshadow main { assert (== (main) 0) }\n"


def steps_for(k):
    return ["beforeready", "afterready"] + ["%s%d" % (b, i) for b in ("reqread", "reply", "midreply") for i in range(1, k + 1)]

# deviation-switch sets tried, smallest explanation first
DEV_SETS = [("VM_SIGPIPE_DEFAULT",), ("DE_LEN_WRAP",), ("DE_COUNT_UNBOUNDED",), ("VM_SIGPIPE_DEFAULT", "DE_LEN_WRAP", "DE_COUNT_UNBOUNDED")]


def finding_for(findings, switch, step, kind):
    for f in findings:
        m = f.get("match", {})
        if m.get("switch") == switch and (m.get("kinds") == "*" or kind in m.get("kinds", [])) and \
                (m.get("steps", "*") == "*" or step in m.get("steps", [])):
            return f
    return None


def run(ctx):
    quick = ctx.tier == "quick"
    K = 2 if quick else 3
    STEPS = steps_for(K)
    PROGRAM = program(K)
    INPROC_LINES = ("before",) + ("7",) * K + ("after",)
    tree = ctx.build("plain")
    probe = ctx.probe("cop_probe")
    c = L.extract_consts(ctx, tree, probe)
    fake_dir, runner = L.build_standins(ctx, tree)
    findings = findings_for("C16")
    cov = {"constants": {k: c[k] for k in ("COP_MAX_PAYLOAD", "COP_PROTO_VERSION", "REQBUF", "hooks")}}

    # ---------------------------------------------------------------- 1. model checking of the design
    r0 = tlc(ctx, "CopProtocol", "CopProtocol", constants=L.protocol_constants(c, k=K, steps=STEPS), workers=4, deadlock=True, coverage=True)
    if r0.violated:
        raise InfraError("CopProtocol (no deviation switch) violates %s:\n%s" % (r0.violated, "\n".join(r0.trace[-3:])[-3000:]))
    allowed0 = L.outcome_sets(r0.records)
    scripts = {(s["step"], s["kind"]): s for s in r0.records if s.get("k") == "script"}
    if len(scripts) != len(STEPS) * len(L.KINDS) + 1:
        raise InfraError("expected %d scenarios, TLC emitted %d" % (len(STEPS) * len(L.KINDS) + 1, len(scripts)))
    cov["model"] = {"scenarios": len(scripts), "states": r0.distinct, "invariants": "NeverSignaled NoOrphan PrefixIntact OutcomeAllowed GarbledOnlyBySplice HealthySame Relaunched + deadlock(stall)",
                    "actions_taken": {k: v[0] for k, v in r0.coverage.items()}}
    # the same model with the deviation switches (what the unchanged code does), outcomes only
    allowed_dev = []
    for dev in DEV_SETS:
        rd = L.run_tlc_protocol(ctx, c, dev, k=K, steps=STEPS)
        allowed_dev.append((dev, L.outcome_sets(rd.records)))

    # ---------------------------------------------------------------- 2. replay through the stand-in
    work = ctx.dir("c16run")
    nvm, err = L.compile_nano(ctx, tree, PROGRAM, "c16prog", work)
    if not nvm:
        raise InfraError("cannot compile the C16 program: " + err)
    base = L.run_vm(ctx, tree, runner, nvm, work, "inproc", isolate=False)
    if (base["res"], base["code"]) != ("exit", 0) or tuple(base["stdout"].decode().splitlines()) != INPROC_LINES:
        raise InfraError("in-process run of the C16 program is not the modelled one: %r" % (base,))
    scheds = ["copfirst", "vmfirst"] if quick else ["copfirst", "vmfirst", "free", "free"]
    jobs = [(step, kind, sched, i) for (step, kind) in sorted(scripts) for i, sched in enumerate(scheds)]

    def one(job):
        step, kind, sched, i = job
        s = scripts[(step, kind)]
        tag = "%s.%s.%s%d" % (step, kind, sched, i)
        script = "step=%s,kind=%s,bad=%s,die=%d,sched=%s" % (step, kind, "".join("%02x" % b for b in s["bad"]), 1 if s["die"] else 0, sched)
        logf = os.path.join(work, tag + ".fake.log")
        trace = os.path.join(work, tag + ".trace")
        env = {"FAKE_COP_SCRIPT": script, "FAKE_COP_STATE": os.path.join(work, tag + ".state"), "FAKE_COP_LOG": logf}
        if c["hooks"]:
            env["NANOLANG_VERIF_TRACE_COP"] = trace
        r = L.run_vm(ctx, tree, runner, nvm, work, tag, isolate=True, cop_dir=fake_dir, extra_env=env, timeout_ms=30000)
        evs = L.read_fake_log(logf)
        r["script"] = script
        r["calls"] = K
        r["cop_pids"] = {e["pid"] for e in evs if e["what"] in ("start", "healthy")}
        r["fault_done"] = any(e["what"] == "fault" for e in evs)
        r["trace"] = trace if c["hooks"] and os.path.exists(trace) else None
        return job, r

    results = parallel_map(one, jobs, jobs=8)
    n_clean = n_known = n_bad = reached = 0
    distinct = set()
    samples = []
    for (step, kind, sched, i), r in results:
        key = (step, kind, 9)
        obs = L.observed_outcome(r, r["cop_pids"])
        distinct.add((step, kind, obs))
        reached += r["fault_done"] or kind == "none"
        lingering = [o for o in r["orphans"] if o["lingering"]]
        verdict = None
        if r["timeout"]:
            verdict = ("hang", "nano_vm did not terminate within 30 s")
        elif lingering:
            verdict = ("lingering", "process(es) still alive 3 s after nano_vm ended: %r" % lingering)
        elif obs in allowed0.get(key, set()):
            n_clean += 1
        else:
            for dev, sets in allowed_dev:
                if obs in sets.get(key, set()):
                    # smallest explaining switch set first; every switch of it that concerns this scenario must be a listed finding
                    fs = [finding_for(findings, sw, step, kind) for sw in dev]
                    if (len(dev) == 1 and fs[0]) or (len(dev) > 1 and any(fs)):
                        for f in fs:
                            if f:
                                ctx.known(f["id"], "%s [step=%s kind=%s sched=%s: %s]" % (f["summary"], step, kind, sched, L.fmt_outcome(obs)))
                        n_known += 1
                        verdict = "known"
                    break
            if verdict is None:
                verdict = ("outcome", "observed %s; allowed by the spec: %s" % (L.fmt_outcome(obs), "; ".join(L.fmt_outcome(o) for o in sorted(allowed0.get(key, [])))))
        if isinstance(verdict, tuple):
            n_bad += 1
            if n_bad > 12:
                continue            # enough replay artifacts; the count is in the evidence
            rep = ctx.save_replay("scenario-%s-%s-%s.json" % (step, kind, sched), json.dumps({
                "property": "C16", "kind": "scenario", "script": r["script"], "program": PROGRAM, "why": verdict[1],
                "observed": {"res": r["res"], "code": r["code"], "stdout": r["stdout"].decode(errors="replace"), "stderr": r["stderr"][-600:], "orphans": r["orphans"]},
                "reproduce": "cd /verif && ./check C16 --replay <this file>"}, indent=1))
            ctx.violation("co-process fault step=%s kind=%s (%s): %s" % (step, kind, sched, verdict[1]), rep)
        if len(samples) < 12 and (step, kind) in (("afterready", "closein"), ("midreply2", "badversion"), ("beforeready", "exit1"), ("reply1", "closein"), ("none", "none"), ("reply2", "undecodable_wrap")):
            samples.append({"script": r["script"], "observed": L.fmt_outcome(obs), "allowed": [L.fmt_outcome(o) for o in sorted(allowed0.get(key, []))]})
    cov["replay"] = {"runs": len(results), "scenarios": len(scripts), "schedules": scheds, "fault_point_reached": reached,
                     "distinct_observed_outcomes": len(distinct), "clean": n_clean, "explained_by_known_finding": n_known, "violations": n_bad,
                     "samples": samples}

    # ---------------------------------------------------------------- 3. decoder on hostile bytes
    rh0 = tlc(ctx, "CopCodec", "CopCodecHostile", constants=L.codec_constants(c, "hostile", big=not quick), workers=4)
    if rh0.violated:
        raise InfraError("CopCodec hostile mode without deviation switches violates %s" % rh0.violated)
    rh = tlc(ctx, "CopCodec", "CopCodecEmit", constants=L.codec_constants(c, "hostile", big=not quick, dev=("DE_LEN_WRAP", "DE_COUNT_UNBOUNDED")), workers=4)
    cases = [x for x in rh.records if x.get("k") == "hostile"]
    casefile = os.path.join(work, "hostile.ndjson")
    with open(casefile, "w") as f:
        for x in cases:
            f.write(json.dumps(x) + "\n")
    p = sh([probe, casefile], env=ctx.env(), timeout=600, check=False)
    if p.returncode != 0:
        raise InfraError("cop_probe failed on hostile buffers: %s" % p.stderr[-500:])
    outs = [json.loads(l) for l in p.stdout.splitlines() if l.startswith("{")]
    summ = [o for o in outs if o.get("summary")]
    if not summ or summ[0]["hostile"] != len(cases):
        raise InfraError("cop_probe did not process every hostile case: %r" % summ)
    hk = hv = 0
    observed_switches = set()
    fwrap = next((f for f in findings if f.get("match", {}).get("switch") == "DE_LEN_WRAP"), None)
    fcount = next((f for f in findings if f.get("match", {}).get("switch") == "DE_COUNT_UNBOUNDED"), None)
    for o in outs:
        if o.get("summary") or o.get("ok"):
            continue
        case = cases[o["i"]]
        f = {"oob": fwrap, "alloc": fcount}.get(case["hz"]) if o.get("crash") else None
        if o.get("crash") and case["hz"] in ("oob", "alloc"):
            observed_switches.add({"oob": "DE_LEN_WRAP", "alloc": "DE_COUNT_UNBOUNDED"}[case["hz"]])
        if f:
            hk += 1
            ctx.known(f["id"], "%s: cop_deserialize_value killed by signal %s on bytes %s" % (f["summary"], o.get("sig"), case["buf"]))
        else:
            hv += 1
            if hv <= 5:
                rep = ctx.save_replay("hostile-%s.json" % sha(json.dumps(case["buf"])), json.dumps({"property": "C16", "kind": "hostile", "case": case, "probe": o}, indent=1))
                ctx.violation("decoder on bytes %s: %s (spec: consumed %s, hazard %s)" % (case["buf"], o["why"], case["n"], case["hz"]), rep)
    cov["hostile_decoder"] = {"buffers": len(cases), "model_states": rh0.distinct, "predicted_hazardous_as_is": sum(1 for x in cases if x["hz"] != "none"),
                              "crashes_explained_by_known_finding": hk, "violations": hv}

    # ---------------------------------------------------------------- 4. trace validation (H5)
    if c["hooks"]:
        from props import cop_trace
        cov["trace_validation"] = cop_trace.validate(ctx, c, [(j, r) for j, r in results if r["trace"]], "C16", tier=ctx.tier, observed_switches=observed_switches)
    else:
        cov["trace_validation"] = {"status": "hook H5 (hooks/h5-cop-lifecycle.patch) not present in this tree: not run"}

    assumptions = [
        "one fault per behaviour, in the first co-process only; relaunched co-processes are healthy",
        "a co-process that stays alive and silent (stall) is outside the property's fault list: message faults that would leave the VM waiting (short header, short payload) are followed by exit(0) of the stand-in",
        "messages are smaller than the pipe capacity (no blocking writes); K = 2 extern calls",
        "a garbled reply whose bytes form a well-formed message is accepted (the protocol has no checksum): the spec predicts the exact value the program then prints",
    ]
    tv = cov["trace_validation"]
    cov.update({
        "evaluations": len(results) + len(cases),
        "distinct_nontrivial": len({(st, kd, o) for (st, kd, o) in distinct if kd != "none"}),
        "rule": "every (step, kind) of the fault space (%d steps x %d kinds + the fault-free run) is replayed under %d schedules through the stand-in; a case is the triple (step, kind, observed outcome), non-trivial when a fault is injected; plus %d hostile byte strings through the real decoder" % (len(STEPS), len(L.KINDS), len(scheds), len(cases)),
        "exhaustive": True,
        "states": r0.distinct + rh0.distinct, "transitions": r0.generated + rh0.generated,
        "traces_validated_against_impl": tv.get("executions", 0) if tv.get("accepted") or tv.get("accepted_after_rerun") else 0,
        "samples": samples,
    })
    return "fault_enumeration", cov, assumptions


def replay(ctx, path):
    tree = ctx.build("plain")
    probe = ctx.probe("cop_probe")
    c = L.extract_consts(ctx, tree, probe)
    if path.endswith(".ndjson"):
        from props import cop_trace
        return cop_trace.replay_trace(ctx, c, probe, path, "C16")
    d = json.load(open(path))
    fake_dir, runner = L.build_standins(ctx, tree)
    work = ctx.dir("replay")
    if d.get("kind") == "hostile":
        cf = os.path.join(work, "case.ndjson")
        open(cf, "w").write(json.dumps(d["case"]) + "\n")
        p = sh([probe, cf], env=ctx.env(), check=False)
        print(p.stdout)
        bad = any('"ok":false' in l for l in p.stdout.splitlines())
        if bad:
            print("VIOLATION property=C16 replay=%s" % path)
        return 1 if bad else 0
    nvm, err = L.compile_nano(ctx, tree, d["program"], "prog", work)
    env = {"FAKE_COP_SCRIPT": d["script"], "FAKE_COP_STATE": os.path.join(work, "state"), "FAKE_COP_LOG": os.path.join(work, "fake.log")}
    r = L.run_vm(ctx, tree, runner, nvm, work, "replay", isolate=True, cop_dir=fake_dir, extra_env=env)
    evs = L.read_fake_log(env["FAKE_COP_LOG"])
    obs = L.observed_outcome(r, {e["pid"] for e in evs if e["what"] in ("start", "healthy")})
    print("script:   %s\nobserved: %s\nstderr:   %s\norphans:  %s" % (d["script"], L.fmt_outcome(obs), r["stderr"].strip()[-300:], r["orphans"]))
    step = dict(x.split("=", 1) for x in d["script"].split(","))
    k = d["program"].count("digit_value")
    r0 = tlc(ctx, "CopProtocol", "CopProtocol", constants=L.protocol_constants(c, k=k, steps=steps_for(k)), workers=4, deadlock=True)
    allowed = L.outcome_sets(r0.records).get((step["step"], step["kind"], 9), set())
    print("allowed:  %s" % "; ".join(L.fmt_outcome(o) for o in sorted(allowed)))
    if obs not in allowed or r["timeout"]:
        print("VIOLATION property=C16 replay=%s" % path)
        return 1
    return 0
