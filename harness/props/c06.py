"""C06 — shadow tests gate compilation.
Model: spec/Driver.tla (phase machine; TLC checks the gate invariants over every truth matrix up to 3 blocks x 2
assertions and terminates).  Binding: for every program of the shadow corpus NanoSem prescribes the truth value of every
executed assertion; the real nanoc is run end to end (with the real cc) and (a) its observable outcome must be the one
Driver.tla derives for that truth matrix, (b) its --verbose transcript must be a behaviour of Driver.tla
(DriverTrace.tla)."""
import json, os, collections
from lib.common import *
from lib.nano_ast import *
from lib.sem_common import *
from lib.shadow_common import *
from lib.run_prog import Engines
import props.c03 as c03

PROP = "C06"


def positional_family():
    """failing assertion in every position the property lists: first/middle/last of a block, inside a loop, in a callee
    reached from the block, in the last of several blocks, after an earlier failure."""
    out = {}
    inc = Func("inc", [("x", "int")], "int", [Ret(Bin("+", V("x"), I(1)))])
    dbl = Func("dbl", [("x", "int")], "int", [Ret(Bin("*", V("x"), I(2)))])
    chk = Func("chk", [("x", "int")], "int", [Assert(Bin(">", V("x"), I(0))), Ret(V("x"))])    # assertion inside a callee
    main = Func("main", [], "int", [Println(Call("inc", I(1))), Ret(I(0))])

    def mk(name, shadows, funcs=(inc, dbl, main)):
        out["pos_" + name] = Program(list(funcs), shadows=shadows)
    A = lambda c, v: Assert(Bin("==", c, I(v)))
    ok_main = ("main", [Assert(B(True))])
    for pos in range(3):
        body = [A(Call("inc", I(1)), 2), A(Call("inc", I(2)), 3), A(Call("inc", I(3)), 4)]
        body[pos] = A(Call("inc", I(pos + 1)), 99)
        mk("single_fail_%d" % pos, [("inc", body), ("dbl", [A(Call("dbl", I(2)), 4)]), ok_main])
    mk("fail_in_last_block", [("inc", [A(Call("inc", I(1)), 2)]), ("dbl", [A(Call("dbl", I(2)), 5)]), ok_main])
    mk("fail_in_first_block", [("inc", [A(Call("inc", I(1)), 3)]), ("dbl", [A(Call("dbl", I(2)), 4)]), ok_main])
    mk("fail_only_in_main_block", [("inc", [A(Call("inc", I(1)), 2)]), ("dbl", [A(Call("dbl", I(2)), 4)]), ("main", [Assert(B(False))])])
    mk("fail_in_loop", [("inc", [For("i", I(0), I(3), [A(Call("inc", V("i")), 2)])]), ("dbl", [A(Call("dbl", I(2)), 4)]), ok_main])
    mk("fail_in_while_twice", [("inc", [Let("k", "int", I(0), True), While(Bin("<", V("k"), I(2)), [Set("k", Bin("+", V("k"), I(1))), A(Call("inc", I(0)), 5)])]),
                               ("dbl", [A(Call("dbl", I(2)), 4)]), ok_main])
    mk("fail_in_callee", [("inc", [A(Call("inc", I(1)), 2)]), ("dbl", [A(Call("dbl", I(1)), 2)]), ("chk", [A(Call("chk", I(0)), 0)]), ok_main], (inc, dbl, chk, main))
    mk("all_hold_many", [("inc", [A(Call("inc", I(k)), k + 1) for k in range(3)]), ("dbl", [A(Call("dbl", I(k)), 2 * k) for k in range(3)]), ok_main])
    mk("two_blocks_fail", [("inc", [A(Call("inc", I(1)), 7), A(Call("inc", I(1)), 8)]), ("dbl", [A(Call("dbl", I(1)), 9)]), ok_main])
    mk("missing_shadow_all_hold", [("inc", [A(Call("inc", I(1)), 2)]), ok_main])          # dbl has no shadow block
    mk("missing_shadow_and_fail", [("inc", [A(Call("inc", I(1)), 3)]), ok_main])
    # several shadow blocks for one function: every block gates (the failing one first / last)
    mk("dup_blocks_fail_first", [("inc", [A(Call("inc", I(1)), 9)]), ("inc", [A(Call("inc", I(1)), 2)]), ("dbl", [A(Call("dbl", I(1)), 2)]), ok_main])
    mk("dup_blocks_fail_last", [("inc", [A(Call("inc", I(1)), 2)]), ("inc", [A(Call("inc", I(1)), 9)]), ("dbl", [A(Call("dbl", I(1)), 2)]), ok_main])
    mk("dup_blocks_all_hold", [("inc", [A(Call("inc", I(1)), 2)]), ("inc", [A(Call("inc", I(2)), 3)]), ("dbl", [A(Call("dbl", I(1)), 2)]), ok_main])
    # a block that is skipped because its function calls an external function directly, then a failing / passing block
    from lib.families import LABS
    roll = Func("roll", [], "int", [Ret(Bin("%", Call("labs", I(-7)), I(6)))])
    def mkx(name, shadows, funcs):
        pr = Program(list(funcs), shadows=shadows, externs=[LABS]); out["pos_" + name] = pr
    mkx("extern_skipped_then_fail", [("roll", [Assert(Bin("<", Call("roll"), I(6)))]), ("inc", [A(Call("inc", I(1)), 5)]), ok_main], (roll, inc, main))
    mkx("fail_then_extern_skipped", [("inc", [A(Call("inc", I(1)), 5)]), ("roll", [Assert(Bin("<", Call("roll"), I(6)))]), ok_main], (inc, roll, main))
    mkx("extern_skipped_then_pass", [("roll", [Assert(Bin("<", Call("roll"), I(6)))]), ("inc", [A(Call("inc", I(1)), 2)]), ok_main], (roll, inc, main))
    mkx("extern_skipped_wrong_assert", [("roll", [Assert(Bin("==", Call("roll"), I(99)))]), ("inc", [A(Call("inc", I(1)), 2)]), ok_main], (roll, inc, main))
    # control flow inside the shadow block itself, before the assertion that decides: every way a loop can end (its last
    # iteration continues / breaks / runs through, zero iterations), for every loop kind, then a false resp. true assertion
    arr = ALit("int", [I(1), I(-2), I(3)])
    loops = {
        "forin_continue_last": [Let("seen", "int", I(0), True), ForIn("x", arr, [If(Bin(">", V("x"), I(2)), [Continue()], []), Set("seen", Bin("+", V("seen"), I(1)))])],
        "forin_continue_middle": [Let("seen", "int", I(0), True), ForIn("x", arr, [If(Bin("<", V("x"), I(0)), [Continue()], []), Set("seen", Bin("+", V("seen"), I(1)))])],
        "forin_break_last": [Let("seen", "int", I(0), True), ForIn("x", arr, [If(Bin(">", V("x"), I(2)), [Break()], []), Set("seen", Bin("+", V("seen"), I(1)))])],
        "forrange_continue_last": [Let("seen", "int", I(0), True), For("i", I(0), I(3), [If(Bin("==", V("i"), I(2)), [Continue()], []), Set("seen", Bin("+", V("seen"), I(1)))])],
        "forrange_zero_iterations": [Let("seen", "int", I(2), True), For("i", I(3), I(3), [Set("seen", I(0))])],
        "while_continue_last": [Let("seen", "int", I(0), True), Let("k", "int", I(0), True), While(Bin("<", V("k"), I(3)), [Set("k", Bin("+", V("k"), I(1))), If(Bin("==", V("k"), I(3)), [Continue()], []), Set("seen", Bin("+", V("seen"), I(1)))])],
        "while_break": [Let("seen", "int", I(0), True), Let("k", "int", I(0), True), While(B(True), [Set("k", Bin("+", V("k"), I(1))), If(Bin("==", V("k"), I(3)), [Break()], []), Set("seen", Bin("+", V("seen"), I(1)))])],
        "nested_inner_continue_last": [Let("seen", "int", I(0), True), For("i", I(0), I(2), [ForIn("x", arr, [If(Bin(">", V("x"), I(2)), [Continue()], []), Set("seen", Bin("+", V("seen"), I(1)))])])],
        "if_block_then": [Let("seen", "int", I(0), True), If(Bin("==", Call("inc", I(1)), I(2)), [Set("seen", I(2))], [Set("seen", I(9))])],
    }
    for lname, stmts in loops.items():
        for truth in (True, False):
            body = list(stmts) + [Assert(Bin("==", V("seen"), I(2))) if truth else Assert(Bin("==", V("seen"), I(77))), A(Call("inc", I(1)), 2)]
            mk("ctl_%s_%s" % (lname, "hold" if truth else "fail"), [("inc", body), ("dbl", [A(Call("dbl", I(1)), 2)]), ok_main])
    mk("fail_then_pass_same_block", [("inc", [A(Call("inc", I(1)), 3), A(Call("inc", I(1)), 2)]), ("dbl", [A(Call("dbl", I(1)), 2)]), ok_main])
    return out


def run(ctx):
    # 1. model check the gate on every small truth matrix
    r0 = tlc(ctx, "Driver", coverage=True, timeout=600)
    if r0.violated:
        raise InfraError("Driver.tla violates %s on the specification itself" % r0.violated)
    # 2. corpus: positional family + generated shadow programs (P_true, P_mixed)
    n_gen = 12 if ctx.tier == "quick" else 150
    built, tlc_a = c03.build(ctx, n_gen, PROP)
    progs = {}
    for pid, b in built.items():
        progs[pid + ".true"] = b["true"]; progs[pid + ".mixed"] = b["mixed"]
    progs.update(positional_family())
    presc, tlc_b = prescribe(ctx, [job(pid, p, what="shadow") for pid, p in progs.items()])
    eng = Engines(ctx)

    def one(pid):
        src = pretty(progs[pid], default_shadows=False)
        d = eng.write(pid, src)
        exe = os.path.join(d, "p.exe")
        r = c03.lib_run([os.path.join(eng.bin, "nanoc_c"), "p.nano", "-o", "p.exe", "--verbose"], d, eng.env())
        r["exe"] = os.path.exists(exe); r["src"] = src
        return pid, r
    obs = dict(parallel_map(one, list(progs)))
    stats = collections.Counter(); samples = []; trace = []; index = []; seen = set()
    ks = known_switches(PROP)
    for pid, r in obs.items():
        text = (r["out"] + r["err"]).decode(errors="replace")
        events, tests = parse_transcript(text)
        want = presc[pid]["shadows"]
        want = [w for w in want if w["status"] != "skipped"]          # skipped blocks (direct extern call) do not gate
        if not any(e["e"] == "tc_ok" for e in events) or any(w["status"] != "ok" for w in want):
            stats["not-a-subject"] += 1
            continue
        seen.add(sha(r["src"]))
        stats["programs"] += 1
        fails = {}
        for w in want:                      # a function may have several shadow blocks: each of them gates
            fails[w["fn"]] = fails.get(w["fn"], 0) + w["fails"]
        any_false = any(v > 0 for v in fails.values())
        named = set(__import__("re").findall(r"Shadow test '(\w+)' FAILED", text))
        missing = [f["n"] for f in progs[pid]["funcs"] if f["n"] not in {s["fn"] for s in progs[pid]["shadows"]}]
        warned = all(("Function '%s' is missing a shadow test" % m) in text for m in missing)
        bad = []
        if any_false:
            if r["rc"] == 0 or r["rc"] is None: bad.append("a shadow assertion is false but nanoc exits %s" % r["rc"])
            if r["exe"]: bad.append("a shadow assertion is false but an executable was written")
            if named != {f for f, v in fails.items() if v > 0}:
                bad.append("failing tests named %s, prescribed %s" % (sorted(named), sorted(f for f, v in fails.items() if v > 0)))
        else:
            if r["rc"] != 0 or not r["exe"]:
                cls = c03.compile_class({"compile": r}) if "compile_class" in dir(c03) else ""
                if "C compilation failed" in text:
                    stats["all-hold-but-cc-fails(C04)"] += 1          # the gate let it through; the C compiler failure is C04's subject
                    continue
                bad.append("all shadow assertions hold but nanoc exit=%s exe=%s" % (r["rc"], r["exe"]))
        if missing and not warned:
            bad.append("function(s) %s without shadow block not reported" % missing)
        got_counts = [(t["name"], t["nfail"] if t["verdict"] == "FAILED" else 0) for t in tests]
        if not bad and got_counts != [(w["fn"], w["fails"]) for w in want]:
            bad.append("tests run and failed assertions per test %s, prescribed %s" % (got_counts, [(w["fn"], w["fails"]) for w in want]))
        if bad:
            # attribution: does the evaluator's known deviation explain the verdicts?
            explained = None
            singles = [x for x in ENGINE_SWITCHES["interp"] if x in ks]
            for s in singles + (["+".join(singles)] if len(singles) > 1 else []):
                w2 = prescribe(ctx, [job("x", progs[pid], dev=s.split("+"), what="shadow")], workers=2)[0]["x"]["shadows"]
                f2 = {w["fn"]: w["fails"] for w in w2}
                w2 = [w for w in w2 if w["status"] != "skipped"]
                stop = [j for j, w in enumerate(w2) if w["status"] != "ok"]
                if stop:      # under this deviation a shadow block ends in a run-time fault: the evaluator stops there, nanoc fails, nothing is written
                    if w2[stop[0]]["status"].startswith("fault:") and len(tests) == stop[0] + 1 and tests[-1]["verdict"] is None and \
                            got_counts[:-1] == [(w["fn"], w["fails"]) for w in w2[:stop[0]]] and r["rc"] not in (0, None) and not r["exe"]:
                        explained = s; break
                    continue
                if got_counts == [(w["fn"], w["fails"]) for w in w2 if w["status"] != "skipped"] and (named == {f for f, v in f2.items() if v > 0}) and ((r["rc"] != 0) == any(v > 0 for v in f2.values())) and (r["exe"] == (not any(v > 0 for v in f2.values()))):
                    explained = s; break
            if not explained:     # findings identified by the builtins the program calls (evaluator's static array model)
                for f in findings_for(PROP):
                    calls_ = f.get("match", {}).get("calls")
                    if calls_ and any(c03.has_call(progs[pid], c) for c in calls_):
                        ctx.known(f["id"], "the gate follows the evaluator's deviating verdict, e.g. program %s" % pid); stats["known:" + f["id"]] += 1
                        explained = "pattern"
                        break
                if explained == "pattern":
                    continue
            if explained:
                for s1 in explained.split("+"):
                    ctx.known(ks[s1], "the gate follows the evaluator's deviating verdict, e.g. program %s" % pid)
                stats["known:" + "+".join(ks[s1] for s1 in explained.split("+"))] += 1
                continue
            rep = {"program": pid, "problems": bad, "source": r["src"], "transcript": text[-2500:], "prescribed_fails": fails}
            ctx.save_replay(pid + ".nano", r["src"])
            ctx.violation("%s: %s" % (pid, "; ".join(bad)), ctx.save_replay(pid + ".json", json.dumps(rep, indent=1)))
            continue
        stats["gate-as-prescribed"] += 1
        if len(samples) < 3:
            samples.append({"program": pid, "prescribed_failed_assertions": fails, "exit": r["rc"], "exe": r["exe"], "named": sorted(named)})
        # transcript -> DriverTrace (truth matrix: per block one entry per *failed* assertion plus one true, enough for the gate)
        sh = [[False] * min(w["fails"], 3) + [True] for w in want]
        if True:
            ev = [{"e": "Reset", "wt": True, "sh": sh, "missing": 1 if missing else 0}] + \
                 [dict(e, n=min(e.get("n", 0), 3)) if e["e"] == "test_failed" else e for e in events] + \
                 [{"e": "end", "exit": r["rc"], "artifact": "exe" if r["exe"] else "none", "warned": bool(missing)}]
            trace += ev; index.append(pid)
    # 3. trace validation of all transcripts in one TLC run
    validated = 0
    if trace:
        tf = os.path.join(ctx.scratch, "driver_trace.ndjson")
        open(tf, "w").write("".join(json.dumps(e) + "\n" for e in trace))
        rt = tlc(ctx, "DriverTrace", workers=1, env={"TRACE": tf}, timeout=600)
        post = [x for x in rt.records if "maxl" in x]
        if rt.violated and rt.violated not in ("POSTCONDITION",):
            ctx.violation("a recorded nanoc transcript violates %s of Driver.tla" % rt.violated, ctx.save_replay("driver_trace.ndjson", src=tf))
        elif not post or post[-1]["maxl"] != len(trace) + 1:
            rt2 = tlc(ctx, "DriverTrace", workers=1, env={"TRACE": tf}, timeout=600)      # report only if it repeats
            post2 = [x for x in rt2.records if "maxl" in x]
            if not post2 or post2[-1]["maxl"] != len(trace) + 1:
                at = post2[-1]["maxl"] if post2 else 0
                nreset = sum(1 for e in trace[:max(at, 1)] if e["e"] == "Reset")
                ctx.violation("nanoc transcript of program %s is not a behaviour of Driver.tla: accepted prefix %d of %d events, next event %s"
                              % (index[nreset - 1] if 0 < nreset <= len(index) else "?", at - 1, len(trace), trace[at - 1] if 0 < at <= len(trace) else "?"),
                              ctx.save_replay("driver_trace.ndjson", src=tf))
        else:
            validated = len(index)
        # binding self-test: a transcript claiming an executable after a failed test must be rejected
        bad_tr = [{"e": "Reset", "wt": True, "sh": [[False, True]], "missing": 0}, {"e": "lex_ok"}, {"e": "parse_ok"}, {"e": "tc_ok"},
                  {"e": "test_failed", "n": 1}, {"e": "shadow_ok"}, {"e": "transpile_ok"}, {"e": "cc_ok"}, {"e": "exe_written"},
                  {"e": "end", "exit": 0, "artifact": "exe", "warned": False}]
        tf2 = os.path.join(ctx.scratch, "driver_bad.ndjson")
        open(tf2, "w").write("".join(json.dumps(e) + "\n" for e in bad_tr))
        rb = tlc(ctx, "DriverTrace", workers=1, env={"TRACE": tf2}, timeout=300)
        pb = [x for x in rb.records if "maxl" in x]
        if pb and pb[-1]["maxl"] == len(bad_tr) + 1 and not rb.violated:
            raise InfraError("DriverTrace accepts a transcript that writes an executable after a failed shadow test")
    cov = dict(states=r0.distinct + tlc_a.distinct + tlc_b.distinct, transitions=r0.generated + tlc_a.generated + tlc_b.generated,
               traces_validated_against_impl=validated, samples=samples or [{"note": "none"}],
               evaluations=len(obs), distinct_nontrivial=len(seen), classes=dict(stats), driver_actions=r0.coverage,
               rule="Driver.tla exhaustively over truth matrices (<=3 blocks x <=2 assertions, well-typed or not, missing shadow or not); corpus: positional family + generated P_true/P_mixed; truth values prescribed by NanoSem")
    return "model_checking", cov, ["truth values of assertions come from NanoSem.tla; the C compiler is the real cc",
                                   "transcript lines of nanoc --verbose are the recorded trace (no hook needed)"]


def replay(ctx, path):
    rep = json.load(open(path)); print(rep.get("problems")); print(rep.get("transcript", "")[-1500:]); return 0
