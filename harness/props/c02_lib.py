"""C02 (library part) — the standard library against its TLA+ specification (spec/NanoLib.tla).

spec/NanoLibTable.tla enumerates (function, argument tuple, store) cases over boundary values and prints, for each,
what NanoLib prescribes (result value, store afterwards, or a status fault:<kind> / unspecified:<what>).  This module
only moves data: it renders the cases as nano programs (batches of calls, one marker line + the printed result + the
printed store per call; a case that is prescribed to fault, or whose result is unspecified, stands alone in a program of
its own), runs them on the four engines built from the tree under test

    native    nanoc_c p.nano -o p.exe ; ./p.exe
    vm        nano_virt p.nano --run
    nano_vm   nano_virt p.nano --emit-nvm ; nano_vm p.nvm
    interp    the compile-time evaluator: the same calls run from a shadow block (nanoc_c with NANO_CC=/bin/true)

and compares every printed line with the prescription.  A mismatch is matched against known_findings.d/LIB.json
(engine + function + argument class) -> KNOWN-FINDING, anything else -> VIOLATION.

Higher-order functions (filter / map / reduce, specified in NanoSem.tla because they call back into the program) and the
program families of lib/families_lib.py are checked at program level through NanoSemRun (prescribe / expected / matches).
"""
import collections, json, os, random, re, subprocess, sys
from lib.common import *
from lib.nano_ast import pretty, _str_lit
from lib.run_prog import Engines, _run
from lib import sem_common

ENGINES = ("native", "vm", "nano_vm", "interp")
SPEC_DEV = os.environ.get("VERIF_SPEC_DEV")          # developer aid: directory whose .tla files overlay /verif/spec for TLC runs


def tlc_lib(ctx, module, cfg=None, **kw):
    extra = []
    if SPEC_DEV:
        extra = [os.path.join(SPEC_DEV, f) for f in os.listdir(SPEC_DEV) if f.endswith(".tla")]
    return tlc(ctx, module, cfg, cwd_files=extra, **kw)


# ------------------------------------------------------------------ values (JSON form of NanoVal records)
def vint(n): return {"t": "int", "i": int_to_limbs(n), "s": "", "f": [], "r": 0}
def vbool(b): return {"t": "bool", "i": [0, 0, 0, 1 if b else 0], "s": "", "f": [], "r": 0}
def vstr(s): return {"t": "str", "i": [0, 0, 0, 0], "s": s, "f": [], "r": 0}
def vref(kind, r): return {"t": kind, "i": [0, 0, 0, 0], "s": "", "f": [], "r": r}


def lit(v):
    """value -> nano source text of a literal"""
    if v["t"] == "int":
        n = limbs_to_int(v["i"])
        return "(- -9223372036854775807 1)" if n == -(1 << 63) else str(n)
    if v["t"] == "bool":
        return "true" if v["i"][3] == 1 else "false"
    if v["t"] == "str":
        return _str_lit(v["s"])
    raise ValueError(v)


def line_of(v):
    if v["t"] == "int": return str(limbs_to_int(v["i"]))
    if v["t"] == "bool": return "true" if v["i"][3] == 1 else "false"
    if v["t"] == "str": return v["s"]
    raise ValueError(v)


TYNAME = {"int": "int", "str": "string", "bool": "bool"}

# result kind of every table function: scalar type name, "array" (element type of the first array argument or of the
# default value), "list:int" / "list:str", "void", "same" (type of the argument)
RESULT = {
    "is_digit": "bool", "is_alpha": "bool", "is_alnum": "bool", "is_whitespace": "bool", "is_upper": "bool", "is_lower": "bool",
    "digit_value": "int", "char_to_lower": "int", "char_to_upper": "int",
    "cast_int": "int", "cast_bool": "bool", "cast_string": "string", "to_string": "string",
    "string_to_int": "int", "int_to_string": "string", "string_from_char": "string", "char_at": "int",
    "str_length": "int", "str_concat": "string", "str_substring": "string", "str_contains": "bool", "str_equals": "bool",
    "abs": "int", "min": "int", "max": "int",
    "array_new": "array", "array_slice": "array", "array_remove_at": "array", "array_length": "int", "at": "elem", "array_get": "elem",
    "array_set": "void", "array_push": "array", "array_pop": "elem",
    "list_int_new": "list:int", "list_int_with_capacity": "list:int", "list_int_push": "void", "list_int_pop": "int", "list_int_get": "int",
    "list_int_set": "void", "list_int_insert": "void", "list_int_remove": "void", "list_int_length": "int", "list_int_capacity": "int",
    "list_int_is_empty": "bool", "list_int_clear": "void", "list_int_free": "void",
    "list_string_new": "list:str", "list_string_with_capacity": "list:str", "list_string_push": "void", "list_string_pop": "string",
    "list_string_get": "string", "list_string_set": "void", "list_string_insert": "void", "list_string_remove": "void",
    "list_string_length": "int", "list_string_capacity": "int", "list_string_is_empty": "bool", "list_string_clear": "void",
    "list_string_free": "void",
}


def cell_type(c):
    if c["kind"] == "list":
        return "List<%s>" % TYNAME[c["et"]]
    return "array<%s>" % TYNAME[c["et"]]


def result_type(case):
    k = RESULT[case["fn"]]
    cells = case["cells"]
    if k in ("array", "elem"):
        et = None
        for a in case["args"]:
            if a["t"] in ("arr", "list"):
                et = cells[a["r"] - 1]["et"]; break
        if et is None:                                   # array_new: the type of the default value
            et = case["args"][1]["t"]
        return ("array<%s>" % TYNAME[et]) if k == "array" else TYNAME[et]
    if k.startswith("list:"):
        return "List<%s>" % TYNAME[k[5:]]
    return k


def print_seq(var, ty, pad, tag):
    """statements printing the length and the elements of an array / list variable"""
    if ty.startswith("List<"):
        p = "list_int" if ty == "List<int>" else "list_string"
        ln, get = "(%s_length %s)" % (p, var), "(%s_get %s %%s)" % (p, var)
    else:
        ln, get = "(array_length %s)" % var, "(at %s %%s)" % var
    i = "i_" + tag
    return ["%s(println %s)" % (pad, ln), "%slet mut %s: int = 0" % (pad, i),
            "%swhile (< %s %s) {" % (pad, i, ln), "%s    (println %s)" % (pad, get % i), "%s    set %s (+ %s 1)" % (pad, i, i), "%s}" % pad]


def render_case(k, case, style):
    """-> text of `fn c<k>() -> int`; style: 'lit' (array cells are literals) or 'push' (built by array_push from [])"""
    pad = "    "
    # scalar arguments travel through parameters of the case function: run-time values, nothing for a C compiler to fold
    params = ["p%d: %s" % (n, TYNAME[a["t"]]) for n, a in enumerate(case["args"]) if a["t"] in TYNAME]
    out = ["fn c%d(%s) -> int {" % (k, ", ".join(params)), '%s(println "#%s")' % (pad, case["id"])]
    for n, c in enumerate(case["cells"], 1):
        ty = cell_type(c)
        if c["kind"] == "list":
            p = "list_int" if c["et"] == "int" else "list_string"
            out.append("%slet mut s%d: %s = (%s_new)" % (pad, n, ty, p))
            for v in c["v"]:
                out.append("%s(%s_push s%d %s)" % (pad, p, n, lit(v)))
        elif style == "push" or not c["v"]:
            out.append("%slet mut s%d: %s = []" % (pad, n, ty))
            for v in c["v"]:
                out.append("%sset s%d (array_push s%d %s)" % (pad, n, n, lit(v)))
        else:
            out.append("%slet mut s%d: %s = [%s]" % (pad, n, ty, ", ".join(lit(v) for v in c["v"])))
    args = " ".join(("s%d" % a["r"]) if a["t"] in ("arr", "list") else "p%d" % n for n, a in enumerate(case["args"]))
    call = "(%s%s)" % (case["fn"], (" " + args) if args else "")
    rt = result_type(case)
    if rt == "void":
        out.append(pad + call)
    else:
        out.append("%slet r: %s = %s" % (pad, rt, call))
        if rt.startswith(("array<", "List<")):
            out += print_seq("r", rt, pad, "r")
        else:
            out.append("%s(println r)" % pad)
    for n, c in enumerate(case["cells"], 1):
        if case.get("cells2") and n <= len(case["cells2"]) and is_freed(case["cells2"][n - 1]):
            continue                                   # a freed list must not be touched again
        out += print_seq("s%d" % n, cell_type(c), pad, "s%d" % n)
    out += [pad + "return 0", "}"]
    return "\n".join(out) + "\n"


def is_freed(cell_values):
    return len(cell_values) == 1 and cell_values[0]["t"] == "freed"


def expected_lines(rec):
    """prescription -> the lines the case prints after its marker (only for ok cases)"""
    out = []
    v = rec["v"]
    if v["t"] in ("int", "bool", "str"):
        out.append(line_of(v))
    elif v["t"] in ("arr", "list"):
        vals = rec["cells2"][v["r"] - 1]
        out.append(str(len(vals))); out += [line_of(x) for x in vals]
    for n in range(len(rec["cells"])):
        vals = rec["cells2"][n]
        if is_freed(vals):
            continue
        out.append(str(len(vals))); out += [line_of(x) for x in vals]
    return out


def render_program(cases, style, interp):
    parts = []
    for k, c in enumerate(cases):
        parts.append(render_case(k, c, style))
        parts.append("shadow c%d {\n    assert true\n}\n" % k)
    def call(k, c):
        a = " ".join(lit(x) for x in c["args"] if x["t"] in TYNAME)
        return "(c%d%s)" % (k, (" " + a) if a else "")
    body = ["    let mut z: int = 0"] + ["    set z (+ z %s)" % call(k, c) for k, c in enumerate(cases)] + ["    return z"]
    parts.append("fn run_all() -> int {\n%s\n}\n" % "\n".join(body))
    parts.append("shadow run_all {\n    %s\n}\n" % ("assert (== (run_all) 0)" if interp else "assert true"))
    parts.append("fn main() -> int {\n    return (run_all)\n}\nshadow main {\n    assert true\n}\n")
    return "\n".join(parts)


# ------------------------------------------------------------------ running
def classify_err(engine, x):
    """a short class for the way a run ended abnormally (data for the report, not a verdict)"""
    t = (x.get("err", b"") + x.get("out", b"")[-2000:]).decode(errors="replace")
    if x.get("timeout"): return "timeout"
    if x.get("sig"): return "signal-%d" % x["sig"]
    for pat, name in (("C compilation failed", "cc-failed"), ("codegen failed", "codegen-failed"), ("codegen error", "codegen-failed"),
                      ("erification failed", "verify-failed"), ("ype error", "vm-type-error"), ("Type checking failed", "rejected"),
                      ("type check failed", "rejected"), ("Undefined function", "undefined-function"), ("undefined function", "undefined-function"),
                      ("out of bounds", "bounds-message"), ("tack overflow", "stack"), ("nvalid opcode", "decode")):
        if pat in t:
            return name
    return "exit-%s" % x.get("rc")


def native_build_run(eng, d):
    """nanoc + run; with the prebuilt runtime archive when there is one (a failed build is repeated the plain way)"""
    fe = getattr(eng, "fast_env", None)
    n = eng.native(d, extra_env=fe) if fe else eng.native(d)
    if fe and not n["exe"]:
        n = eng.native(d)
    return n


def run_program(eng, name, cases, style):
    """-> {engine: raw result dict with 'out' text and status fields}"""
    src = render_program(cases, style, False)
    d = eng.write(name, src)
    res = {"src": src, "dir": d}
    n = native_build_run(eng, d)
    if n["exe"]:
        res["native"] = dict(n["run"], built=True)
    else:
        res["native"] = dict(n["compile"], built=False)
    res["vm"] = dict(eng.vm(d), built=True)
    e = eng.emit(d)
    if os.path.exists(os.path.join(d, "p.nvm")):
        res["nano_vm"] = dict(eng.nano_vm(d), built=True)
    else:
        res["nano_vm"] = dict(e, built=False)
    src_i = render_program(cases, style, True)
    di = eng.write(name + ".i", src_i)
    x = eng.shadow_only(di, verbose=True)
    text = x["out"].decode(errors="replace")
    text = re.sub(r"(?m)^\[FFI\] [^\n]*\n", "", text)
    i = text.find("Testing run_all... ")
    if i < 0:
        res["interp"] = dict(x, built=False, src=src_i)
    else:
        body = text[i + len("Testing run_all... "):]
        res["interp"] = dict(x, built=True, out=body.encode(), src=src_i, transcript=True)
    return res


def split_cases(x, cases, engine):
    """engine output -> per case: ('done', lines) | ('stopped', lines, how) | ('absent', how)"""
    out = {}
    if not x["built"]:
        how = classify_err(engine, x)
        return {c["id"]: ("absent", how) for c in cases}
    lines = x["out"].decode(errors="replace").split("\n")
    if lines and lines[-1] == "":
        lines.pop()
    ended_ok = (x.get("rc") == 0 and not x.get("sig") and not x.get("timeout"))
    pos = {}
    for n, l in enumerate(lines):
        if l.startswith("#") and l[1:] in {c["id"] for c in cases} and l[1:] not in pos:
            pos[l[1:]] = n
    order = [c["id"] for c in cases]
    for k, cid in enumerate(order):
        if cid not in pos:
            out[cid] = ("absent", classify_err(engine, x))
            continue
        nxt = None
        for later in order[k + 1:]:
            if later in pos:
                nxt = pos[later]; break
        seg = lines[pos[cid] + 1: nxt if nxt is not None else len(lines)]
        if nxt is not None:
            out[cid] = ("done", seg)
        else:                                           # the last case the run reached
            if x.get("transcript"):
                # evaluator: the verdict line of the shadow test follows the program's output
                j = next((n for n, l in enumerate(seg) if l in ("PASSED", "FAILED") or l.endswith("PASSED") and l[:-6] == ""), None)
                if j is not None and ended_ok:
                    out[cid] = ("done", seg[:j]) if seg[j] == "PASSED" else ("stopped", seg[:j], "shadow-FAILED")
                elif j is not None:
                    out[cid] = ("stopped", seg[:j], classify_err(engine, x))
                else:
                    out[cid] = ("stopped", seg, classify_err(engine, x))
            elif ended_ok:
                out[cid] = ("done", seg)
            else:
                out[cid] = ("stopped", seg, classify_err(engine, x))
    return out


# ------------------------------------------------------------------ program level (NanoSemRun)
def prescribe_lib(ctx, jobs, fuel=60000, timeout=1500, workers=None):
    """sem_common.prescribe with the developer overlay of spec files (VERIF_SPEC_DEV)"""
    if not SPEC_DEV:
        return sem_common.prescribe(ctx, jobs, fuel=fuel, timeout=timeout, workers=workers)
    jf = os.path.join(ctx.scratch, "jobs.%d.ndjson" % len(ctx.tlc_runs))
    with open(jf, "w") as f:
        for j in jobs:
            f.write(json.dumps(j) + "\n")
    r = tlc_lib(ctx, "NanoSemRun", env={"NANOSEM_JOBS": jf}, xss="900m", timeout=timeout, workers=workers, constants={"Fuel": str(fuel)})
    if r.violated:
        raise InfraError("NanoSemRun reported %s\n%s" % (r.violated, r.out[-3000:]))
    recs = {rec["id"]: rec for rec in r.records}
    missing = [j["id"] for j in jobs if j["id"] not in recs]
    if missing:
        raise InfraError("NanoSem produced no result for %d jobs (e.g. %s)\n%s" % (len(missing), missing[:3], r.out[-3000:]))
    return recs, r


def interp_variant(p):
    """the body of main becomes a function of its own that a shadow block calls: the evaluator runs the whole program"""
    q = json.loads(json.dumps({k: v for k, v in p.items() if k != "__files__"}))
    for f in q["funcs"]:
        if f["n"] == "main":
            f["n"] = "body_of_main"
    from lib.nano_ast import Func, Ret, Call, Ex, Let
    q["funcs"].append(Func("main", [], "int", [Ret(Call("body_of_main"))]))
    q["shadows"] = [{"fn": "body_of_main", "b": [Let("rc__", "int", Call("body_of_main"))]}]
    return q


def run_program_level(ctx, eng, progs):
    """progs {id: AST} -> per id: prescription (main run), prescription (shadow run), engine observations"""
    import copy
    from lib.nano_ast import annotate_types
    jobs = []
    for pid, p in progs.items():
        jobs.append(sem_common.job(pid, annotate_types(copy.deepcopy(p)), what="sound"))
        jobs.append(sem_common.job(pid + "|shadow", interp_variant(p), what="shadow"))
    recs, r = prescribe_lib(ctx, jobs)

    def one(pid):
        p = progs[pid]
        src = pretty(p)
        d = eng.write("prog_" + pid, src)
        res = {"src": src}
        n = native_build_run(eng, d)
        res["native"] = n["run"] if n["exe"] else dict(n["compile"], nobuild=True)
        res["vm"] = eng.vm(d)
        e = eng.emit(d)
        res["nano_vm"] = eng.nano_vm(d) if os.path.exists(os.path.join(d, "p.nvm")) else dict(e, nobuild=True)
        srci = pretty(interp_variant(p))
        di = eng.write("prog_" + pid + ".i", srci)
        x = eng.shadow_only(di, verbose=True)
        text = re.sub(r"(?m)^\[FFI\] [^\n]*\n", "", x["out"].decode(errors="replace"))
        i = text.find("Testing body_of_main... ")
        if i < 0:
            res["interp"] = dict(x, nobuild=True)
        else:
            body = text[i + len("Testing body_of_main... "):]
            m = re.search(r"(PASSED|FAILED)\n", body)
            j = body.rfind("PASSED\n") if "PASSED\n" in body else -1
            k = body.find("Testing main... ")
            if k >= 0:
                seg = body[:k]
                verdict = "PASSED" if seg.endswith("PASSED\n") else "FAILED" if seg.endswith("FAILED\n") else None
                out = seg[:-7] if verdict else seg
            else:
                seg, verdict, out = body, None, body
            res["interp"] = dict(x, out=out.encode(), verdict=verdict, src=srci)
        return pid, res
    runs = dict(parallel_map(one, list(progs)))
    return recs, runs, r


# ------------------------------------------------------------------ the case table
def table_records(ctx, deep, jobs=()):
    jf = os.path.join(ctx.scratch, "libjobs.%d.ndjson" % len(ctx.tlc_runs))
    with open(jf, "w") as f:
        for j in jobs:
            f.write(json.dumps(j) + "\n")
    r = tlc_lib(ctx, "NanoLibTable", env={"NANOLIB_JOBS": jf}, constants={"Deep": "TRUE" if deep else "FALSE"}, timeout=1200, xss="256m")
    if r.violated:
        raise InfraError("NanoLibTable: %s violated on the specification itself\n%s" % (r.violated, "\n".join(r.trace[:2])))
    recs, seen = [], set()
    for rec in sorted(r.records, key=lambda c: (c["fn"], c["id"])):
        key = json.dumps([rec["fn"], rec["args"], rec["cells"]], sort_keys=True)
        if key in seen:                      # the boundary alphabets overlap (e.g. len-1 = 0): one run per distinct case
            continue
        seen.add(key)
        recs.append(rec)
    return recs, r


INT32 = (-(1 << 31), (1 << 31) - 1)


def int_args(rec):
    return [limbs_to_int(a["i"]) for a in rec["args"] if a["t"] == "int"]


def arg_classes(rec, style):
    """names of the argument classes a case belongs to (used only to match known findings; data, not an oracle)"""
    cl = {"any"}
    ints = int_args(rec)
    if any(n < INT32[0] or n > INT32[1] for n in ints): cl.add("int-arg-outside-int32")
    if any(abs(n) > (1 << 53) for n in ints): cl.add("int-arg-beyond-2^53")
    if any(n < 0 or n > 255 for n in ints): cl.add("int-arg-outside-0..255")
    if any(a["t"] == "str" for a in rec["args"]): cl.add("string-arg")
    if any(a["t"] == "str" and a["s"] == "" for a in rec["args"]): cl.add("empty-string-arg")
    if any(a["t"] == "str" and a["s"] not in ("", "true", "1") for a in rec["args"]): cl.add("string-arg-not-true-or-1")
    if rec["fn"] == "array_new" and ints and ints[0] < 0: cl.add("negative-size")
    if rec["ok"] == "fault:bounds": cl.add("index-out-of-range")
    if any(c["kind"] == "arr" for c in rec["cells"]) and style in ("lit", "alias-lit"): cl.add("array-from-literal")
    if any(c["kind"] == "arr" and not c["v"] for c in rec["cells"]): cl.add("array-from-literal")      # `[]` without a push stays a static array
    return cl


def build_programs(recs, batch, styles_for):
    """-> list of (name, [cases], style).  One function per program; ok cases in batches; a case prescribed to fault or
    left unspecified ends a program (nothing may follow it)"""
    progs = []
    by_fn = collections.OrderedDict()
    for rec in recs:
        by_fn.setdefault(rec["fn"], []).append(rec)
    for fn, rs in by_fn.items():
        for style in styles_for(fn, rs):
            oks = [r for r in rs if r["ok"] == "ok"]
            tails = [r for r in rs if r["ok"] != "ok"]
            chunks = [oks[i:i + batch] for i in range(0, len(oks), batch)] or [[]]
            # spread the tail cases over the ok batches; extra programs hold a few ok cases plus one tail
            n = 0
            while tails or n < len(chunks):
                head = chunks[n] if n < len(chunks) else []
                cases = list(head) + ([tails.pop(0)] if tails else [])
                if cases:
                    progs.append(("%s.%s.%d" % (fn, style, n), cases, style))
                n += 1
    return progs


def verdict(rec, obs, engine):
    """-> None when the observation is what the specification prescribes, else a short description of the deviation"""
    st = rec["ok"]
    if st == "ok":
        want = expected_lines(rec)
        if obs[0] == "done":
            return None if obs[1] == want else "wrong-result"
        if obs[0] == "stopped":
            return "stops:" + obs[2]
        return "absent:" + obs[1]
    if st.startswith("fault:"):
        if obs[0] == "stopped" and obs[1] == [] and (obs[2].startswith(("exit-", "bounds-message")) or obs[2] == "signal-6") and obs[2] != "exit-0":
            return None
        if obs[0] == "absent" and obs[1] == "signal-6":          # abort(): the buffered marker line is lost with the rest of stdout
            return None
        if obs[0] == "done":
            return "continues-after-fault"
        if obs[0] == "stopped" and obs[1] != []:
            return "prints-then-stops:" + obs[2]
        return ("stops:" + obs[2]) if obs[0] == "stopped" else ("absent:" + obs[1])
    # unspecified: any result or orderly stop is fine; an internal failure (C04) is not
    how = obs[2] if obs[0] == "stopped" else obs[1] if obs[0] == "absent" else ""
    if how in ("cc-failed", "codegen-failed", "verify-failed", "vm-type-error", "undefined-function", "decode", "stack", "timeout") or \
            (how.startswith("signal-") and how != "signal-6"):
        return "internal-failure:" + how
    return None


def lib_findings():
    return [f for f in load_findings() if f.get("status", "known") == "known" and "C02L" in f.get("properties", [])]


def match_finding(findings, engine, rec, style, dev, obs):
    """a deviation is excused by a listed finding either because the run shows exactly what the specification predicts
    under one of the finding's deviation switches (NanoLib!LibDev), or - for crashes, failed builds and the few deviations
    with no simple closed form - because engine, function, argument class and kind of deviation are those listed"""
    alts = {a["sw"]: a for a in rec.get("alts", [])}
    for f in findings:
        for sw in f.get("lib_switches", {}).get(engine, []):
            if sw in alts and verdict(dict(rec, ok=alts[sw]["ok"], v=alts[sw]["v"], cells2=alts[sw]["cells2"]), obs, engine) is None:
                return f["id"]
    cl = arg_classes(rec, style)
    for f in findings:
        for m in f.get("lib", []):
            if engine not in m["engines"] or rec["fn"] not in m["fns"]:
                continue
            if not set(m.get("classes", ["any"])) <= cl:
                continue
            if m.get("status") and not rec["ok"].startswith(m["status"]):
                continue
            if m.get("deviation") and not any(re.fullmatch(d, dev) for d in m["deviation"]):
                continue
            return f["id"]
    return None


def run_table(ctx, eng, recs, stats, samples, batch=40, report=None):
    def styles_for(fn, rs):
        if any(c["kind"] == "arr" for r in rs for c in r["cells"]):
            return ["lit", "push"]
        return ["lit"]
    progs = build_programs(recs, batch, styles_for)
    stats["table_programs"] = len(progs)

    def one(p):
        name, cases, style = p
        return p, run_program(eng, name, cases, style)
    results = parallel_map(one, progs)
    findings = lib_findings()
    pending = []             # (engine, rec, style) to be re-run alone
    final = []               # (engine, rec, style, obs, src)
    for (name, cases, style), res in results:
        for e in ENGINES:
            per = split_cases(res[e], cases, e)
            for rec in cases:
                obs = per[rec["id"]]
                dev = verdict(rec, obs, e)
                if dev is None or len(cases) == 1:
                    final.append((e, rec, style, obs, res.get("src") if e != "interp" else res["interp"].get("src", res["src"])))
                else:
                    pending.append((e, rec, style))
    stats["table_rerun_alone"] = len(pending)
    # second pass: a case that did not come out as prescribed inside a batch is judged on a run of its own
    groups = collections.OrderedDict()
    for e, rec, style in pending:
        groups.setdefault((rec["id"], style), (rec, style, set()))[2].add(e)

    def alone(item):
        (cid, style), (rec, _, engs) = item
        res = run_single(eng, "alone.%s.%s" % (re.sub(r"\W", "_", cid), style), rec, style, engs)
        return rec, style, engs, res
    for rec, style, engs, res in parallel_map(alone, list(groups.items())):
        for e in engs:
            obs = split_cases(res[e], [rec], e)[rec["id"]]
            final.append((e, rec, style, obs, res[e].get("src", res["src"])))
    for e, rec, style, obs, src in final:
        stats["table_checked"] += 1
        dev = verdict(rec, obs, e)
        kind = rec["ok"].split(":")[0]
        if dev is None:
            stats["%s:%s:as-prescribed" % (e, kind)] += 1
            if len(samples) < 6 and rec["ok"] != "ok" or len(samples) < 3:
                samples.append({"engine": e, "fn": rec["fn"], "args": [line_of(a) if a["t"] in ("int", "bool", "str") else "<%s %d>" % (a["t"], a["r"]) for a in rec["args"]],
                                "prescribed": rec["ok"] if rec["ok"] != "ok" else expected_lines(rec), "observed": "as prescribed"})
            continue
        fid = match_finding(findings, e, rec, style, dev, obs)
        what = "%s: (%s %s)%s prescribed %s, observed %s" % (
            e, rec["fn"], " ".join(describe_arg(a, rec) for a in rec["args"]), " [array built by %s]" % style if rec["cells"] else "",
            rec["ok"] if rec["ok"] != "ok" else "|".join(expected_lines(rec)), describe_obs(obs))
        if report is not None:
            report.append((e, rec["fn"], rec["ok"], dev, sorted(arg_classes(rec, style)), what, fid))
        if fid:
            ctx.known(fid, what)
            stats["known:" + fid] += 1
        else:
            stats["violations"] += 1
            stats["violations:%s:%s" % (e, rec["fn"])] += 1
            if stats["violations:%s:%s" % (e, rec["fn"])] > 3:          # the first three cases of a function on an engine are reported, the rest counted
                stats["further_violations_not_listed"] += 1
                continue
            rep = {"engine": e, "fn": rec["fn"], "case": rec, "style": style, "deviation": dev, "observed": describe_obs(obs), "source": src}
            ctx.violation(what, ctx.save_replay("lib_%s_%s_%s.json" % (e, re.sub(r"\W", "_", rec["id"]), style), json.dumps(rep, indent=1)))
    return progs


def describe_arg(a, rec):
    if a["t"] in ("arr", "list"):
        c = rec["cells"][a["r"] - 1]
        return "%s[%s]" % ("list" if c["kind"] == "list" else "", ",".join(lit(v) for v in c["v"]))
    return lit(a)


def describe_obs(obs):
    if obs[0] == "done": return "|".join(obs[1])
    if obs[0] == "stopped": return "stops (%s) after printing %s" % (obs[2], "|".join(obs[1]) or "nothing")
    return "no run (%s)" % obs[1]


def run_single(eng, name, rec, style, engines):
    """one case alone, only on the engines asked for"""
    cases = [rec]
    src = render_program(cases, style, False)
    d = eng.write(name, src)
    res = {"src": src}
    if "native" in engines:
        n = native_build_run(eng, d)
        res["native"] = dict(n["run"], built=True) if n["exe"] else dict(n["compile"], built=False)
    if "vm" in engines:
        res["vm"] = dict(eng.vm(d), built=True)
    if "nano_vm" in engines:
        e = eng.emit(d)
        res["nano_vm"] = dict(eng.nano_vm(d), built=True) if os.path.exists(os.path.join(d, "p.nvm")) else dict(e, built=False)
    if "interp" in engines:
        src_i = render_program(cases, style, True)
        di = eng.write(name + ".i", src_i)
        x = eng.shadow_only(di, verbose=True)
        text = re.sub(r"(?m)^\[FFI\] [^\n]*\n", "", x["out"].decode(errors="replace"))
        i = text.find("Testing run_all... ")
        res["interp"] = dict(x, built=False, src=src_i) if i < 0 else dict(x, built=True, out=text[i + len("Testing run_all... "):].encode(), src=src_i, transcript=True)
    return res


# ------------------------------------------------------------------ faster native builds
WRAPPER_SH = r'''#!/bin/sh
# NANO_CC wrapper of harness/props/c02_lib.py: nanoc_c calls "$NANO_CC <flags> -o exe prog.c <root>/src/runtime/*.c ... -lm".
# NANO_CC_LOG=<file>: append the argument vector (fields separated by 0x1f).
# NANO_CC_RTLIB=<archive>: the archive holds the objects of exactly those runtime sources, compiled once per check from the
# same tree with the same flags; it is substituted for the source arguments.  Nothing else changes.
REAL=${NANO_CC_REAL:-cc}
if [ -n "$NANO_CC_LOG" ]; then
    ( for a in "$@"; do printf '%s\037' "$a"; done; printf '\n' ) >> "$NANO_CC_LOG"
fi
if [ -n "$NANO_CC_RTLIB" ] && [ -f "$NANO_CC_RTLIB" ]; then
    placed=0
    for a in "$@"; do
        shift
        case "$a" in
            */src/runtime/*.c)
                if [ $placed -eq 0 ]; then set -- "$@" "$NANO_CC_RTLIB"; placed=1; fi ;;
            *) set -- "$@" "$a" ;;
        esac
    done
fi
exec $REAL "$@"
'''


def fast_cc(ctx, eng):
    """-> extra environment for Engines.native that links a prebuilt archive of the runtime (or {} when it cannot be derived)"""
    d = ctx.dir("fastcc")
    wrapper = os.path.join(d, "nano_cc.sh")
    with open(wrapper, "w") as f:
        f.write(WRAPPER_SH)
    os.chmod(wrapper, 0o755)
    logf = os.path.join(d, "cc.log")
    pd = eng.write("fastcc_probe", "fn main() -> int {\n    (println 1)\n    return 0\n}\nshadow main {\n    assert true\n}\n")
    n = eng.native(pd, extra_env={"NANO_CC": wrapper, "NANO_CC_LOG": logf})
    if not n["exe"] or not os.path.exists(logf):
        return {}
    args = None
    for line in open(logf, errors="replace"):
        a = line.rstrip("\n").split("\x1f")
        if any(x.endswith(".c") and "/src/runtime/" in x for x in a):
            args = a
            break
    if not args:
        return {}
    srcs = [x for x in args if x.endswith(".c") and "/src/runtime/" in x]
    flags = [x for x in args if re.match(r"-(std=|W|I|f|g|D|O)", x)]

    def cc(src):
        o = os.path.join(d, os.path.basename(src)[:-2] + ".o")
        sh(["cc"] + flags + ["-c", src, "-o", o], env=ctx.env(), timeout=300)
        return o
    try:
        objs = parallel_map(cc, srcs)
        lib = os.path.join(d, "libnlrt.a")
        sh(["ar", "rcs", lib] + objs)
    except InfraError:
        return {}
    env = {"NANO_CC": wrapper, "NANO_CC_RTLIB": lib}
    n2 = eng.native(pd, extra_env=env)
    if not n2["exe"] or n2["run"]["out"] != n["run"]["out"]:
        return {}
    return env


# ------------------------------------------------------------------ higher-order functions: a table of small programs
def hof_programs(deep):
    from lib.nano_ast import Func, Program, Let, Println, Ret, Call, V, I, S, B, Bin, ALit, For, If
    from lib.families_lib import HOF_FUNCS
    sfuncs = [Func("shout", [("s", "string")], "string", [Println(V("s")), Ret(Bin("+", V("s"), S("!")))]),
              Func("nonempty", [("s", "string")], "bool", [Ret(Bin(">", Call("str_length", V("s")), I(0)))]),
              Func("cat", [("acc", "string"), ("s", "string")], "string", [Ret(Bin("+", Bin("+", V("acc"), S("/")), V("s")))]),
              Func("count_long", [("acc", "int"), ("s", "string")], "int", [If(Bin(">", Call("str_length", V("s")), I(1)), [Ret(Bin("+", V("acc"), I(1)))]), Ret(V("acc"))])]
    show = Func("show", [("a", "array<int>")], "int", [For("i", I(0), Call("array_length", V("a")), [Println(Call("at", V("a"), V("i")))]), Ret(Call("array_length", V("a")))])
    shows = Func("shows", [("a", "array<string>")], "int", [For("i", I(0), Call("array_length", V("a")), [Println(Call("at", V("a"), V("i")))]), Ret(Call("array_length", V("a")))])
    arrays = {"empty": [], "one": [5], "six": [1, 2, 3, 4, 5, 6], "neg": [-3, 0, 7, -8], "big": [9223372036854775807, 2, -9223372036854775808]}
    if deep:
        arrays.update({"dups": [2, 2, 2], "odd": [1, 3, 5], "long": list(range(20))})
    out = {}
    for an, vals in arrays.items():
        lit = ALit("int", [I(v) for v in vals])
        for fn in ("is_even", "big"):
            out["hof_filter_%s_%s" % (fn, an)] = Program(HOF_FUNCS + [show, Func("main", [], "int", [
                Let("a", "array<int>", lit), Let("r", "array<int>", Call("filter", V("a"), V(fn))), Println(Call("show", V("r"))), Println(Call("show", V("a"))), Ret(I(0))])])
        for fn in ("square", "noisy"):
            out["hof_map_%s_%s" % (fn, an)] = Program(HOF_FUNCS + [show, Func("main", [], "int", [
                Let("a", "array<int>", lit), Let("r", "array<int>", Call("map", V("a"), V(fn))), Println(Call("show", V("r"))), Println(Call("show", V("a"))), Ret(I(0))])])
        for fn in ("add", "sub"):
            for init in (0, 10, 9223372036854775807):
                out["hof_reduce_%s_%s_%d" % (fn, an, init)] = Program(HOF_FUNCS + [show, Func("main", [], "int", [
                    Let("a", "array<int>", lit), Let("r", "int", Call("reduce", V("a"), I(init), V(fn))), Println(V("r")), Println(Call("show", V("a"))), Ret(I(0))])])
    for an, vals in {"empty": [], "words": ["a", "", "bcd", "ef"]}.items():
        lit = ALit("string", [S(v) for v in vals])
        out["hof_str_%s" % an] = Program(sfuncs + [shows, Func("main", [], "int", [
            Let("a", "array<string>", lit), Let("f", "array<string>", Call("filter", V("a"), V("nonempty"))), Println(Call("shows", V("f"))),
            Let("m", "array<string>", Call("map", V("a"), V("shout"))), Println(Call("shows", V("m"))), Println(Call("reduce", V("a"), S(">"), V("cat"))),
            Println(Call("reduce", V("a"), I(0), V("count_long"))), Println(Call("shows", V("a"))), Ret(I(0))])])
    return out


def program_level(ctx, eng, progs, stats, samples, report=None):
    """families and the higher-order table: every engine against NanoSem's prescription"""
    recs, runs, r = run_program_level(ctx, eng, progs)
    findings = [f for f in load_findings() if f.get("status", "known") == "known" and "C02L" in f.get("properties", [])]
    from lib.nano_ast import render_out
    for pid in progs:
        o = recs[pid]
        if not o["wt"] or o["status"] != "ok":
            raise InfraError("program %s is not well-typed / does not run to completion in the specification: %s %s" % (pid, o["violates"], o["status"]))
        sh_ = recs[pid + "|shadow"]["shadows"][0]
        for e in ENGINES:
            x = runs[pid][e]
            stats["programs_checked"] += 1
            if e == "interp":
                want = render_out(sh_["out"]).encode()
                ok = (not x.get("nobuild")) and x["out"] == want and x.get("verdict") == "PASSED" and sh_["status"] == "ok"
                got = "no shadow run" if x.get("nobuild") else "%r verdict %s" % (x["out"].decode(errors="replace")[:200], x.get("verdict"))
            else:
                ex = sem_common.expected(o)
                ok = (not x.get("nobuild")) and sem_common.matches(sem_common.observe(x), ex)
                got = ("no run (%s)" % classify_err(e, x)) if x.get("nobuild") else "%r exit %s sig %s" % (x["out"].decode(errors="replace")[:200], x["rc"], x["sig"])
                want = ex[2]
            if ok:
                stats[e + ":program:as-prescribed"] += 1
                if sum(1 for x_ in samples if "program" in x_) < 2:
                    samples.append({"program": pid, "engine": e, "stdout": want.decode(errors="replace")[:160], "observed": "as prescribed"})
                continue
            fid = None
            for f in findings:
                m = f.get("match", {})
                if e in m.get("engines", []) and m.get("program_regex") and re.search(m["program_regex"], pid):
                    fid = f["id"]
            what = "%s: program %s prints/ends differently from the prescription: %s (prescribed %r)" % (e, pid, got, want.decode(errors="replace")[:200])
            if report is not None:
                report.append((e, pid, "ok", "program", [], what, fid))
            if fid:
                ctx.known(fid, what[:300]); stats["known:" + fid] += 1
            else:
                stats["violations"] += 1
                fam = e + ":" + ("_".join(pid.split("_")[:2]) if pid.startswith("hof_") else pid)
                stats["violations:" + fam] += 1
                if stats["violations:" + fam] > 2:
                    stats["further_violations_not_listed"] += 1
                    continue
                rep = {"program": pid, "engine": e, "source": runs[pid][e].get("src", runs[pid]["src"]), "prescribed": want.decode(errors="replace"), "observed": got}
                ctx.save_replay("%s_%s.nano" % (pid, e), rep["source"])
                ctx.violation(what[:400], ctx.save_replay("prog_%s_%s.json" % (pid, e), json.dumps(rep, indent=1)))
    return r


def mix_check(ctx, eng, recs, stats, report=None):
    """several different functions of one family in one program (the per-function programs of the table never show an
    interference between builtins): the six character predicates on the same arguments, in rotating order"""
    fns = ["is_digit", "is_alpha", "is_alnum", "is_whitespace", "is_upper", "is_lower"]
    by = {(r["fn"], json.dumps(r["args"])): r for r in recs if r["fn"] in fns}
    args = [a for a in sorted({k[1] for k in by}) if all((f, a) in by for f in fns)]
    pick = [a for a in args if json.loads(a)[0]["i"][:3] == [0, 0, 0] and json.loads(a)[0]["i"][3] in (9, 32, 48, 57, 65, 90, 97, 122, 95, 200)]
    findings = lib_findings_all()
    for rot in range(len(fns)):
        order = fns[rot:] + fns[:rot]
        cases = []
        for a in pick:
            for f in order:
                c = dict(by[(f, a)]); c["id"] = "mix%d-%s" % (rot, c["id"]); cases.append(c)
        res = run_program(eng, "mix.%d" % rot, cases, "lit")
        for e in ENGINES:
            per = split_cases(res[e], cases, e)
            for c in cases:
                stats["mix_checked"] += 1
                dev = verdict(c, per[c["id"]], e)
                if dev is None:
                    continue
                first = dict(by[(order[0], json.dumps(c["args"]))])
                fid = None
                for f in findings:
                    m = f.get("lib_mix")
                    if m and e in m["engines"] and c["fn"] in m["fns"] and verdict(dict(c, v=first["v"]), per[c["id"]], e) is None:
                        fid = f["id"]            # the call ran the family member that the program used first
                what = "%s: (%s %s) in a program that calls %s first: prescribed %s, observed %s" % (e, c["fn"], lit(c["args"][0]), order[0], "|".join(expected_lines(c)), describe_obs(per[c["id"]]))
                if report is not None:
                    report.append((e, c["fn"], "ok", "mix:" + dev, [], what, fid))
                if fid:
                    ctx.known(fid, what); stats["known:" + fid] += 1
                else:
                    ctx.violation(what, ctx.save_replay("mix_%d_%s_%s.nano" % (rot, e, c["fn"]), res[e].get("src", res["src"]))); stats["violations"] += 1


def lib_findings_all():
    return [f for f in load_findings() if f.get("status", "known") == "known" and "C02L" in f.get("properties", [])]


# ------------------------------------------------------------------ seeded random argument tuples (thorough tier)
def random_jobs(seed, n):
    r = random.Random(seed * 1000003 + 17)
    wide = [0, 1, -1, 2, 7, 48, 65, 97, 255, 256, 65535, 65536, (1 << 31) - 1, 1 << 31, (1 << 32), (1 << 32) + 1, (1 << 32) + 48, (1 << 53) + 1, -(1 << 53) - 1,
            (1 << 62), (1 << 63) - 1, -(1 << 63), -(1 << 32), -(1 << 31) - 1]

    def rint():
        k = r.random()
        if k < 0.4: return r.randint(-3, 130)
        if k < 0.7: return r.choice(wide) + r.randint(-2, 2) if abs(r.choice(wide)) < (1 << 62) else r.choice(wide)
        return r.randint(-(1 << 63), (1 << 63) - 1)

    def rstr(numeric):
        if numeric:
            s = r.choice(["", "", " ", "-", "+", "  "]) + "".join(r.choice("0123456789") for _ in range(r.choice([0, 1, 2, 5, 18, 19, 20, 21]))) + r.choice(["", "", "", " ", "x", ".5", "e2"])
            return s
        return "".join(r.choice("abzAZ09 _-+.!") for _ in range(r.randint(0, 6)))

    def rseq(et):
        n_ = r.choice([0, 1, 2, 3, 5, 6])
        if et == "int": return [vint(r.choice([0, 1, -1, 10, 20, 30, (1 << 63) - 1, -(1 << 63), r.randint(-99, 99)])) for _ in range(n_)]
        if et == "str": return [vstr(rstr(False)) for _ in range(n_)]
        return [vbool(r.random() < 0.5) for _ in range(n_)]

    def ridx(n_):
        k = r.random()
        if k < 0.6: return r.randint(-2, n_ + 2)
        if k < 0.8: return (1 << 32) + r.randint(-1, n_)
        return rint()
    out = []
    chars = ["is_digit", "is_alpha", "is_alnum", "is_whitespace", "is_upper", "is_lower", "digit_value", "char_to_lower", "char_to_upper"]
    for k in range(n):
        kind = r.choice(["char", "conv", "conv", "new", "slice", "slice", "remove", "listi", "listi", "lists"])
        cells = []
        if kind == "char":
            fn, args = r.choice(chars), [vint(rint())]
        elif kind == "conv":
            fn = r.choice(["cast_int", "cast_bool", "cast_string", "to_string", "string_to_int"])
            args = [vstr(rstr(True))] if fn == "string_to_int" else [r.choice([vint(rint()), vbool(r.random() < 0.5), vstr(rstr(r.random() < 0.7))])]
        elif kind == "new":
            fn, args = "array_new", [vint(r.choice([0, 1, 2, 3, 9, 40, -1, -7, rint() if r.random() < 0.1 else 4])), r.choice([vint(rint()), vstr(rstr(False)), vbool(True)])]
            if limbs_to_int(args[0]["i"]) > 65536: args[0] = vint(5)
        elif kind in ("slice", "remove"):
            et = r.choice(["int", "int", "str", "bool"])
            vals = rseq(et); cells = [{"kind": "arr", "et": et, "v": vals}]
            fn = "array_slice" if kind == "slice" else "array_remove_at"
            args = [vref("arr", 1), vint(ridx(len(vals)))] + ([vint(ridx(len(vals)))] if kind == "slice" else [])
        else:
            et, p = ("int", "list_int") if kind == "listi" else ("str", "list_string")
            vals = rseq(et); cells = [{"kind": "list", "et": et, "v": vals}]
            op = r.choice(["push", "pop", "get", "set", "insert", "remove", "length", "is_empty", "clear", "get", "set", "insert", "remove"])
            x = vint(rint()) if et == "int" else vstr(rstr(False))
            args = [vref("list", 1)]
            if et == "int": args[0]["s"] = "int"
            else: args[0]["s"] = "str"
            if op in ("get", "remove"): args.append(vint(ridx(len(vals))))
            if op in ("set", "insert"): args += [vint(ridx(len(vals))), x]
            if op == "push": args.append(x)
            fn = p + "_" + op
        out.append({"id": "rnd%d-%s" % (k, fn), "fn": fn, "args": args, "cells": cells})
    return out


# ------------------------------------------------------------------ entry
def run_lib(ctx, report=None):
    """-> (stats, samples); verdicts go to ctx.violation / ctx.known"""
    stats, samples = collections.Counter(), []
    deep = ctx.tier == "thorough"
    only = os.environ.get("VERIF_ONLY")
    eng = Engines(ctx)
    eng.fast_env = fast_cc(ctx, eng)
    stats["native_builds_use_runtime_archive"] = 1 if eng.fast_env else 0
    laws = tlc_lib(ctx, "NanoLibLaws", constants={"MaxLen": "5" if deep else "3", "Deep": "TRUE" if deep else "FALSE"}, timeout=1500)
    if laws.violated:
        raise InfraError("NanoLibLaws: %s violated on the specification itself\n%s" % (laws.violated, "\n".join(laws.trace[:2])))
    jobs = random_jobs(ctx.seed, 6000) if deep else random_jobs(ctx.seed, 60)
    recs, r = table_records(ctx, deep, jobs)
    if only:
        recs = [x for x in recs if re.search(only, x["fn"])]
    stats["table_cases"] = len(recs)
    for x in recs:
        stats["prescribed:" + x["ok"].split(":")[0]] += 1
    run_table(ctx, eng, recs, stats, samples, batch=60 if deep else 40, report=report)
    if not only or re.search(only, "mix"):
        mix_check(ctx, eng, recs, stats, report=report)
    from lib import families_lib
    progs = dict(families_lib.lib_families())
    progs.update(hof_programs(deep))
    if only:
        progs = {k: v for k, v in progs.items() if re.search(only, k)}
    r2 = program_level(ctx, eng, progs, stats, samples, report=report) if progs else None
    stats["programs"] = len(progs)
    if not samples:
        samples.append({"note": "VERIF_ONLY=%s selected no case" % only})
    cov = dict(states=laws.distinct + r.distinct + (r2.distinct if r2 else 0), transitions=laws.generated + r.generated + (r2.generated if r2 else 0),
               table_cases=len(recs), programs=len(progs), engines=list(ENGINES))
    return stats, samples, cov
