"""C15 - isolating external calls in the nano_cop co-process does not change behaviour; codec identity.

Model:   spec/CopCodec.tla: De(Ser(v)) = v, exact size law, Ser fails iff size > cap, proper prefixes refused,
         on the bounded grammar of transferable values (+ long strings by length);
         spec/CopProtocol.tla without fault: healthy co-process => same stdout/exit as in process (HealthySame),
         for every encoded-argument size used by the programs below.
Replay:  every value/encoding -> probes/cop_probe: the real cop_serialize_value must produce the spec's bytes,
         cop_deserialize_value must give the value back bit for bit, the capacity law must hold byte for byte.
         Programs calling each extern-compiled builtin with boundary arguments: `nano_vm x.nvm` versus
         `nano_vm --isolate-ffi x.nvm` (real nano_cop): stdout + exit status must be equal.
Traces:  H5 events of the isolated runs (when the hook is compiled in) -> spec/CopTrace.tla (healthy lifecycle).
"""
import json
import os

from lib.common import InfraError, findings_for, log, parallel_map, sh, sha, tlc
from props import cop_lib as L

HELPERS = """
fn rep(n: int) -> string {
    let mut r: string = ""
    let mut p: string = "a"
    let mut k: int = n
    while (> k 0) {
        if (== (% k 2) 1) { set r (+ r p) }
        set p (+ p p)
        set k (/ k 2)
    }
    return r
}
fn ints(n: int) -> array<int> {
    let mut a: array<int> = []
    let mut i: int = 0
    while (< i n) {
        set a (array_push a (+ 65 (% i 26)))
        set i (+ i 1)
    }
    return a
}
"""


def prog(body_lines):
    return HELPERS + "fn main() -> int {\n    (println \"begin\")\n" + "".join("    %s\n" % l for l in body_lines) + \
        "    (println \"end\")\n    return 0\n}\nshadow main { assert (== (main) 0) }\n"


INT_CTYPE = [-1, 0, 9, 10, 32, 47, 48, 57, 58, 64, 65, 90, 91, 96, 97, 122, 123, 127, 128, 255]
INT_ANY = INT_CTYPE + [256, -128, 2147483647, -2147483648, 4294967296, 9223372036854775807, -9223372036854775807]
FLOATS = ["0.0", "(* -1.0 0.0)", "1.0", "-1.0", "0.5", "2.0", "-2.5", "1000000.0", "0.000001", "(pow 10.0 308.0)", "(pow 10.0 400.0)",
          "(* -1.0 (pow 10.0 400.0))", "(sqrt -1.0)", "(pow 10.0 -320.0)", "3.141592653589793"]


def lit(i):
    return str(i) if i > -9223372036854775808 else "(- -9223372036854775807 1)"


STATEFUL_CALLS = {}


def programs(reqbuf, quick):
    """(name, builtin, size class, encoded size of the arguments, source).  One builtin and one size class per program,
    so that a failing call does not mask the others."""
    P = []
    for f in ["is_digit", "is_whitespace", "digit_value", "char_to_lower", "char_to_upper"]:
        P.append((f + ".ints", f, "int", 9, prog(["(println (%s %s))" % (f, lit(i)) for i in INT_ANY + [-9223372036854775808]])))
    for f in ["is_alpha", "is_alnum", "is_space", "is_upper", "is_lower"]:
        P.append((f + ".ints", f, "int", 9, prog(["(println (%s %s))" % (f, lit(i)) for i in INT_CTYPE])))
    P.append(("string_from_char.ints", "string_from_char", "int", 9,
              prog(["(println (string_from_char %s))" % lit(i) for i in [0, 1, 10, 65, 127, 128, 200, 255, 256, 321, -1, -191, 9223372036854775807]])))
    for f in ["sqrt", "sin", "cos", "tan", "asin", "acos", "atan", "floor", "ceil", "round", "log", "log2", "log10", "exp"]:
        P.append((f + ".floats", f, "float", 9, prog(["(println (%s %s))" % (f, x) for x in FLOATS])))
    for f in ["pow", "atan2", "fmod"]:
        pairs = [(a, b) for a in FLOATS[:13:2] for b in FLOATS[1:13:2]]
        P.append((f + ".floats", f, "float", 18, prog(["(println (%s %s %s))" % (f, a, b) for a, b in pairs])))
    # strings: lengths 0, 1, around the request buffer, 65536
    edge = (reqbuf - 11) if reqbuf else 8181          # longest single string argument that fits a fixed request buffer
    lens = [0, 1, 2, 255, 256, 4096, edge - 1, edge, edge + 1, edge + 2, 8192, 16384, 65535, 65536]
    if quick:
        lens = [0, 1, 255, 256, edge - 1, edge, edge + 1, 8192, 65536]
    for n in lens:
        P.append(("bstr_utf8_length.%d" % n, "bstr_utf8_length", "str", 5 + n, prog(["(println (bstr_utf8_length (rep %d)))" % n])))
        P.append(("bytes_from_string.%d" % n, "bytes_from_string", "str", 5 + n,
                  prog(["let b: array<int> = (bytes_from_string (rep %d))" % n, "(println (array_length b))"] +
                       (["(println (at b 0))", "(println (at b %d))" % (n - 1)] if n > 0 else []) + (["(println b)"] if n <= 256 else []))))
        P.append(("str_index_of.%d" % n, "str_index_of", "str", 5 + n + 5 + 2,
                  prog(["let s: string = (+ (rep %d) \"ba\")" % max(n - 2, 0), "(println (str_length s))", "(println (str_index_of s \"ba\"))",
                        "(println (str_index_of s \"\"))", "(println (str_index_of s \"zz\"))", "(println (str_index_of \"ba\" s))"])))
    for n in ([0, 1, 300, 65536] if quick else [0, 1, 2, 300, 8181, 8182, 65536]):
        P.append(("bstr_validate_utf8.%d" % n, "bstr_validate_utf8", "str", 5 + n, prog(["(println (bstr_validate_utf8 (rep %d)))" % n])))
        P.append(("bstr_utf8_char_at.%d" % n, "bstr_utf8_char_at", "str", 5 + n + 9,
                  prog(["(println (bstr_utf8_char_at (rep %d) %d))" % (n, i) for i in [0, 1, n - 1, n, -1]])))
    P.append(("utf8.content", "bstr_utf8_length", "str", 5 + 16,
              prog(["(println (bstr_utf8_length \"héllo 世界 \U0001F600\"))", "(println (bstr_validate_utf8 \"héllo 世界\"))",
                    "(println (bstr_utf8_char_at \"héllo 世界\" 1))", "(println (bstr_utf8_char_at \"héllo 世界\" 6))",
                    "(println (bytes_from_string \"hé\"))", "(println (string_from_bytes (bytes_from_string \"héllo 世界\")))"])))
    # arrays as arguments: element count around the request buffer (9 bytes per int element + 6)
    aedge = ((reqbuf - 6 - 6) // 9) if reqbuf else 908
    for n in ([0, 1, 3, aedge, aedge + 1, 65536] if quick else [0, 1, 2, 3, 255, aedge - 1, aedge, aedge + 1, 4096, 65536]):
        P.append(("string_from_bytes.%d" % n, "string_from_bytes", "arr", 6 + 9 * n,
                  prog(["let s: string = (string_from_bytes (ints %d))" % n, "(println (str_length s))"] + (["(println s)"] if n <= 300 else []))))
    P.append(("string_from_bytes.lit", "string_from_bytes", "arr", 6 + 9 * 6,
              prog(["(println (string_from_bytes [104, 105, 255, 128, 10, 65]))", "(println (str_length (string_from_bytes [65, 0, 66])))",
                    "(println (string_from_bytes [-1, 256, 321]))"])))
    # OS helpers (stateful ones are used so that both runs see the same world)
    P.append(("os.env", "getenv/setenv", "str", 40,
              prog(["(println (getenv \"NLVERIF_C15\"))", "(println (setenv \"NLVERIF_C15_B\" \"v2\"))", "(println (getenv \"NLVERIF_C15_B\"))",
                    "(println (getenv \"NLVERIF_NOT_SET\"))", "(println (str_length (getenv \"NLVERIF_C15_LONG\")))"])))
    P.append(("os.fs", "file_write/file_read/file_exists/dir_*", "str", 40,
              prog(["(println (file_exists \"c15.data\"))", "(println (file_write \"c15.data\" \"hello\"))", "(println (file_exists \"c15.data\"))",
                    "(println (file_read \"c15.data\"))", "(println (file_read \"c15.missing\"))", "(println (dir_exists \".\"))",
                    "(println (dir_exists \"c15.nodir\"))", "(println (dir_list \"c15.emptydir\"))", "(println (array_length (dir_list \"c15.dir3\")))",
                    "(println (str_length (getcwd)))"])))
    # user-declared externs that keep state inside the C library between calls: all extern calls of one program must see
    # one C library (CopProtocol: one co-process serves every call of the run), whatever their signatures are
    def stateful(name, decls, lets, calls, prints):
        src = "".join("extern fn %s\n" % d for d in decls) + "fn main() -> int {\n" + "".join("    let mut %s\n" % l for l in lets) + \
            "    unsafe {\n" + "".join("        %s\n" % c for c in calls) + "    }\n" + "".join("    (println %s)\n" % x for x in prints) + \
            "    return 0\n}\nshadow main { assert true }\n"
        P.append(("stateful." + name, "extern:" + name, "state", 9, src))
        STATEFUL_CALLS["stateful." + name] = None if name == "chdir" else len(calls)     # one extern call per line (getcwd is a builtin: not counted)
    stateful("rand", ["srand(seed: int) -> void", "rand() -> int"], ["a: int = 0", "b: int = 0", "c: int = 0"],
             ["(srand 7)", "set a (rand)", "set b (rand)", "(srand 7)", "set c (rand)"], ["a", "b", "(== a c)"])
    stateful("rand48", ["srand48(seed: int) -> void", "lrand48() -> int", "drand48() -> float"], ["a: int = 0", "r: float = 0.0", "c: int = 0"],
             ["(srand48 5)", "set a (lrand48)", "set r (drand48)", "(srand48 5)", "set c (lrand48)"], ["a", "r", "(== a c)"])
    stateful("umask_alarm", ["umask(m: int) -> int", "alarm(s: int) -> int"], ["a: int = 0", "b: int = 0", "c: int = 0"],
             ["set a (umask 18)", "set b (umask a)", "(alarm 1000)", "set c (alarm 0)"], ["b", "c"])
    stateful("fenv", ["fesetround(mode: int) -> int", "fegetround() -> int", "rint(x: float) -> float", "nearbyint(x: float) -> float"],
             ["n1: float = 0.0", "u0: int = 0", "u1: float = 0.0", "u2: float = 0.0", "d1: float = 0.0", "z1: float = 0.0", "rc: int = 0"],
             ["set n1 (rint 2.5)", "set rc (+ rc (fesetround 2048))", "set u0 (fegetround)", "set u1 (rint 2.5)", "set u2 (nearbyint 0.25)",
              "set rc (+ rc (fesetround 1024))", "set d1 (nearbyint -0.25)", "set rc (+ rc (fesetround 3072))", "set z1 (rint -7.75)",
              "set rc (+ rc (fesetround 0))"], ["n1", "u0", "u1", "u2", "d1", "z1", "rc"])
    stateful("chdir", ["chdir(p: string) -> int"], ["a: int = 0", "b: int = 0", "c: int = 0", "r: int = 0"],
             ["set a (str_length (getcwd))", "set r (chdir \"c15.dir3\")", "set b (str_length (getcwd))", "set r (+ r (chdir \"..\"))", "set c (str_length (getcwd))"],
             ["(- b a)", "(- c a)", "r"])
    # libm / libc functions that are not builtins of this tree, reached through user declarations (same transfer path)
    def userext(name, decl, calls, klass, argsize):
        src = "extern fn %s\n" % decl + HELPERS + "fn main() -> int {\n    (println \"begin\")\n" + \
            "".join("    unsafe { (println %s) }\n" % c for c in calls) + "    (println \"end\")\n    return 0\n}\nshadow main { assert true }\n"
        P.append(("userext." + name, "extern:" + name, klass, argsize, src))
    for f in ["asin", "acos", "atan", "log", "log2", "log10", "exp", "cbrt", "fabs", "trunc"]:
        userext(f, "%s(x: float) -> float" % f, ["(%s %s)" % (f, x) for x in FLOATS], "float", 9)
    for f in ["fmod", "hypot", "copysign", "fmax"]:
        userext(f, "%s(x: float, y: float) -> float" % f, ["(%s %s %s)" % (f, a, b) for a in FLOATS[:13:2] for b in FLOATS[1:13:2]], "float", 18)
    userext("strlen", "strlen(s: string) -> int", ["(strlen (rep %d))" % n for n in lens], "str", 5 + max(lens))
    userext("getenv", "getenv(name: string) -> string", ['(getenv "NLVERIF_C15")', '(str_length (getenv "NLVERIF_C15_LONG"))'], "str", 40)
    userext("atoi_labs", "labs(x: int) -> int", ["(labs %s)" % lit(i) for i in INT_ANY], "int", 9)
    # arrays as arguments of a user-declared extern, elements of unequal encoded size (the request is sized from the arguments)
    def arrarg(name, ety, lits):
        decl = "extern fn dyn_array_length(a: array<%s>) -> int\n" % ety
        body = "".join("    let a%d: array<%s> = %s\n" % (k, ety, l) for k, l in enumerate(lits)) + "    let mut n: int = 0\n" + \
            "".join("    unsafe { set n (dyn_array_length a%d) }\n    (println n)\n" % k for k in range(len(lits)))
        P.append(("arrarg." + name, "extern:dyn_array_length(array<%s>)" % ety, "arr", 6 + 9 * 4,
                  decl + HELPERS + "fn main() -> int {\n    (println \"begin\")\n" + body + "    (println \"end\")\n    return 0\n}\nshadow main { assert true }\n"))
    arrarg("strings", "string", ['[]', '["aa", "bb", "cc"]', '["a long first element", "b", ""]', '["", "b", "a longer later element"]',
                                  '["", "", "", (rep 300), ""]', '[(rep 5000), "x"]', '["x", (rep 9000)]'])
    arrarg("ints", "int", ['[]', '[0]', '[1, -1, 9223372036854775807]', '[0, 0, 0, 0, 0, 0, 0, 0, 0, 0, 0, 0, 0, 0, 0, 0, 0, 0, 0, 0, 1]'])
    arrarg("bools", "bool", ['[true]', '[false, true, false]'])
    for n in ([100, 5000, 70000, 1048570, 1048571, 2000000] if not quick else [100, 70000, 1048571, 2000000]):
        P.append(("file_read.%d" % n, "file_read", "result", 5 + 12, prog(["(println (str_length (file_read \"c15.big%d\")))" % n])))
    return P


BIG_FILES = (100, 5000, 70000, 1048570, 1048571, 2000000)
WORLD_ENV = {"NLVERIF_C15": "value one", "NLVERIF_C15_LONG": "L" * 9000}


def make_world(work):
    """the files both runs see (the environment part is WORLD_ENV)"""
    os.makedirs(os.path.join(work, "c15.emptydir"), exist_ok=True)
    os.makedirs(os.path.join(work, "c15.dir3"), exist_ok=True)
    for n in "abc":
        open(os.path.join(work, "c15.dir3", n), "w").close()
    for n in BIG_FILES:
        with open(os.path.join(work, "c15.big%d" % n), "w") as f:
            f.write("x" * n)


def run(ctx):
    quick = ctx.tier == "quick"
    tree = ctx.build("plain")
    probe = ctx.probe("cop_probe")
    c = L.extract_consts(ctx, tree, probe)
    _, runner = L.build_standins(ctx, tree)
    findings = findings_for("C15")
    cov = {"constants": {k: c[k] for k in ("REQBUF", "COP_MAX_PAYLOAD", "TAG_INT", "TAG_FLOAT", "TAG_STRING", "TAG_ARRAY", "TAG_OPAQUE", "hooks")}}
    work = ctx.dir("c15run")

    # ---------------------------------------------------------------- 1. codec: model check + replay into the real functions
    reqbuf = c["REQBUF"]
    edge = (reqbuf - 11) if reqbuf else 8181
    longlens = {0, 1, 255, 256, 65535, 65536, edge - 1, edge, edge + 1, 8192}
    if not quick:
        longlens |= {2, 127, 128, 4095, 4096, 4097, 16384, 131072}
    rv = tlc(ctx, "CopCodec", "CopCodec", constants=L.codec_constants(c, "values", big=not quick), workers=4, timeout=1500)
    rl = tlc(ctx, "CopCodec", "CopCodec", constants=L.codec_constants(c, "long", longlens=longlens), workers=4, timeout=1500)
    for r in (rv, rl):
        if r.violated:
            raise InfraError("CopCodec violates %s in the model:\n%s" % (r.violated, "\n".join(r.trace)[-2000:]))
    cases = [x for x in rv.records + rl.records if x.get("k") in ("val", "long")]
    if len(cases) != rv.distinct + rl.distinct:
        raise InfraError("TLC emitted %d cases for %d states" % (len(cases), rv.distinct + rl.distinct))
    casefile = os.path.join(work, "codec.ndjson")
    with open(casefile, "w") as f:
        for x in cases:
            f.write(json.dumps(x) + "\n")
    p = sh([probe, casefile], env=ctx.env(), timeout=900, check=False)
    outs = [json.loads(l) for l in p.stdout.splitlines() if l.startswith("{")]
    summ = [o for o in outs if o.get("summary")]
    if p.returncode != 0 or not summ or summ[0]["cases"] != len(cases):
        rep = ctx.save_replay("codec-probe-crash.ndjson", src=casefile)
        if p.returncode < 0 or p.returncode > 2:
            ctx.violation("cop_probe died (rc=%s) while encoding/decoding the spec's values: %s" % (p.returncode, p.stderr[-300:]), rep)
        else:
            raise InfraError("cop_probe failed rc=%s: %s" % (p.returncode, p.stderr[-500:]))
    nbad = 0
    for o in outs:
        if o.get("summary") or o.get("ok", True):
            continue
        nbad += 1
        if nbad <= 5:
            case = cases[o["i"]]
            rep = ctx.save_replay("codec-%s.json" % sha(json.dumps(case)), json.dumps({"property": "C15", "kind": "codec", "case": case, "probe": o}, indent=1))
            ctx.violation("codec (%s): %s; case %s" % (o["k"], o["why"], json.dumps(case)[:300]), rep)
    cov["codec"] = {"values": rv.distinct, "long_strings": sorted(longlens), "probe": summ[0] if summ else None, "mismatches": nbad,
                    "laws": "RoundTrip SizeLaw CapLaw(all caps 0..size+1) PrefixRefused; probe: bytes = Ser(v), decode bit-for-bit, re-encode, caps, prefixes, NULL string/array variants",
                    "sample": cases[len(cases) // 2]}

    # ---------------------------------------------------------------- 2. programs: in process versus isolated
    progs = programs(reqbuf, quick)
    make_world(work)
    world = dict(WORLD_ENV)
    argsizes = sorted({a for (_, _, _, a, _) in progs})
    # the protocol model, fault-free, for exactly these argument sizes
    rp0 = tlc(ctx, "CopProtocol", "CopProtocol", constants=L.protocol_constants(c, steps=[], kinds=[], argsizes=argsizes), workers=4, deadlock=True)
    if rp0.violated:
        raise InfraError("CopProtocol (healthy, no deviation switch) violates %s" % rp0.violated)
    rp1 = L.run_tlc_protocol(ctx, c, ("COP_REQBUF_FIXED",), steps=[], kinds=[], argsizes=argsizes)
    clean = L.outcome_sets(rp0.records)
    asis = L.outcome_sets(rp1.records)
    too_big = {a for a in argsizes if asis.get(("none", "none", a)) != clean.get(("none", "none", a))}     # sizes the as-is model predicts to fail

    def one(item):
        name, builtin, klass, argsize, text = item
        d = os.path.join(work, "p." + name)
        os.makedirs(d, exist_ok=True)
        for fn in os.listdir(work):
            if fn.startswith("c15."):
                src = os.path.join(work, fn)
                dst = os.path.join(d, fn)
                if not os.path.lexists(dst):
                    os.symlink(src, dst)
        nvm, err = L.compile_nano(ctx, tree, text, "p", d)
        if not nvm:
            return item, None, None, err
        imports = sh([probe, "--imports", nvm], env=ctx.env(), check=False).stdout.split()
        a = L.run_vm(ctx, tree, runner, nvm, d, "inproc", isolate=False, extra_env=world, timeout_ms=120000)
        if os.path.exists(os.path.join(d, "c15.data")):
            os.remove(os.path.join(d, "c15.data"))
        env = dict(world)
        if c["hooks"]:
            env["NANOLANG_VERIF_TRACE_COP"] = os.path.join(d, "trace")
        b = L.run_vm(ctx, tree, runner, nvm, d, "isolated", isolate=True, cop_dir=os.path.join(tree, "bin"), extra_env=env, timeout_ms=120000)
        b["trace"] = env.get("NANOLANG_VERIF_TRACE_COP") if c["hooks"] and os.path.exists(env.get("NANOLANG_VERIF_TRACE_COP", "/nonexistent")) else None
        return item, a, b, imports

    results = parallel_map(one, progs, jobs=8)
    one_library_checked = []
    # model: one C library per run (CopState.tla): holds for the dispatcher as it is, and the spec can tell the deviations apart
    rs_all = tlc(ctx, "CopState", cfg="CopState", workers=4, timeout=600)
    if rs_all.violated:
        raise InfraError("CopState.tla (Route = all) violates %s" % rs_all.violated)
    for dev_cfg in ("CopState_bysig", "CopState_respawn"):
        rs_dev = tlc(ctx, "CopState", cfg=dev_cfg, workers=4, timeout=600)
        if not rs_dev.violated:
            raise InfraError("CopState.tla does not distinguish the deviation %s: the model is vacuous" % dev_cfg)
    same = diff_known = diff_bad = uncompiled = noextern = 0
    out_hashes = set()
    builtins_seen = set()
    samples = []
    traces = []
    for (name, builtin, klass, argsize, text), a, b, extra in results:
        if a is None:
            uncompiled += 1
            log("C15: program %s does not compile (builtin not available): %s" % (name, (extra or "").strip()[-200:]))
            continue
        if not extra:
            noextern += 1          # no import table entry: the builtin is not an extern call in this tree
            continue
        builtins_seen.add(builtin)
        out_hashes.add(sha(a["stdout"]))
        if b.get("trace"):
            traces.append(((name, klass, argsize), b))
        if klass == "state" and b.get("trace"):
            # CopState.tla OneLibrary: every extern call of the run is served by the one co-process of the run
            evs = [json.loads(l) for l in open(b["trace"]).read().splitlines() if l.startswith("{") and l.rstrip().endswith("}")]
            ncall = sum(1 for e in evs if e.get("e") == "call"); nlaunch = sum(1 for e in evs if e.get("e") == "launch")
            want_calls = STATEFUL_CALLS.get(name)
            if nlaunch != 1 or (want_calls is not None and ncall != want_calls):
                rep = ctx.save_replay("program-%s.json" % name, json.dumps({"property": "C15", "kind": "program", "name": name, "builtin": builtin, "source": text, "env": world,
                                      "why": "%d co-process launches, %d calls served by it; the program performs %s extern calls" % (nlaunch, ncall, want_calls)}, indent=1))
                ctx.violation("program %s: the run's extern calls are not all served by one co-process (%d launches, %d of %s calls routed to it): CopState.tla OneLibrary"
                              % (name, nlaunch, ncall, want_calls), rep)
                continue
            one_library_checked.append(name)
        oa = (a["res"], a["code"], a["stdout"])
        ob = (b["res"], b["code"], b["stdout"])
        if a["timeout"] or b["timeout"]:
            raise InfraError("program %s timed out (%s)" % (name, "in-process" if a["timeout"] else "isolated"))
        if oa == ob and not b["orphans"]:
            same += 1
            if len(samples) < 6 and klass in ("str", "arr", "float"):
                samples.append({"program": name, "stdout_sha": sha(a["stdout"]), "exit": a["code"], "first_lines": a["stdout"].decode(errors="replace").splitlines()[:4]})
            continue
        why = "in process: %s %s, %d bytes of stdout; isolated: %s %s, %d bytes of stdout, stderr %r, unreaped %r" % (
            a["res"], a["code"], len(a["stdout"]), b["res"], b["code"], len(b["stdout"]), b["stderr"].strip()[-160:], b["orphans"])
        f = None
        if oa != ob:
            for cand in findings:
                m = cand.get("match", {})
                if m.get("class") == "request-too-big" and argsize in too_big and klass in m.get("arg_classes", []) and \
                        b["res"] == "exit" and b["code"] == 1 and m.get("stderr", "\0") in b["stderr"] and a["stdout"].startswith(b["stdout"]):
                    f = cand
                elif m.get("class") == "result-too-big" and builtin in m.get("builtins", []) and klass == "result" and \
                        int(name.rsplit(".", 1)[1]) + 5 > m.get("min_result_bytes", 1 << 62) and a["stdout"].startswith(b["stdout"]) and b["res"] == "exit":
                    f = cand
        if f:
            b["loose_end"] = True       # the run ends differently for a reason the protocol model does not contain
            diff_known += 1
            ctx.known(f["id"], "%s [program %s, builtin %s, encoded arguments %d bytes: %s]" % (f["summary"], name, builtin, argsize, why))
        else:
            diff_bad += 1
            rep = ctx.save_replay("program-%s.json" % name, json.dumps({"property": "C15", "kind": "program", "name": name, "builtin": builtin,
                                  "source": text, "env": world, "why": why,
                                  "inproc_stdout": a["stdout"].decode(errors="replace")[:2000], "isolated_stdout": b["stdout"].decode(errors="replace")[:2000]}, indent=1))
            ctx.violation("program %s (builtin %s, %s argument class): %s" % (name, builtin, klass, why), rep)
    cov["one_c_library"] = {"model_states": rs_all.distinct, "invariants": ["Same", "OneLibrary"], "deviations_distinguished": ["bysig", "respawn"],
                            "programs_with_call_count_checked": one_library_checked}
    cov["program_replay"] = {"programs": len(progs), "compared": same + diff_known + diff_bad, "identical": same, "explained_by_known_finding": diff_known,
                       "violations": diff_bad, "not_compiled": uncompiled, "no_extern_call": noextern, "builtins_covered": sorted(builtins_seen),
                       "argument_sizes": argsizes, "sizes_failing_in_as_is_model": sorted(too_big), "samples": samples,
                       "model": {"states_healthy": rp0.distinct, "invariant": "HealthySame for every argument size"}}

    # ---------------------------------------------------------------- 3. traces of the isolated runs
    if c["hooks"]:
        from props import cop_trace
        cov["trace_validation"] = cop_trace.validate(ctx, c, traces, "C15", tier=ctx.tier, healthy=True, too_big=too_big)
    else:
        cov["trace_validation"] = {"status": "hook H5 (hooks/h5-cop-lifecycle.patch) not present in this tree: not run"}

    assumptions = [
        "bounded value grammar: arrays of length <= %d, nesting <= 3, strings <= 3 bytes over a %d-letter alphabet inside values; long strings are checked by length with a fixed content pattern" % (3 if not quick else 2, 4 if not quick else 3),
        "character-class builtins that call <ctype.h> are exercised on -1..255 only (outside that range the C functions are undefined, in process as well as isolated)",
        "process_run and mktemp_dir are not compared (they use /tmp resp. produce a fresh name per call)",
        "x86-64: doubles are copied through SSE registers; signalling NaNs keep their payload",
    ]
    tv = cov["trace_validation"]
    cov.update({
        "states": rv.distinct + rl.distinct + rp0.distinct, "transitions": rv.generated + rl.generated + rp0.generated,
        "traces_validated_against_impl": tv.get("executions", 0) if tv.get("accepted") or tv.get("accepted_after_rerun") else 0,
        "evaluations": 2 * rv.distinct + rl.distinct + 2 * (same + diff_known + diff_bad),
        "distinct_nontrivial": len({json.dumps(x["v"], sort_keys=True) for x in cases if x["k"] == "val" and x["v"]["t"] != "void"}) + len(out_hashes),
        "rule": "codec: every value of the bounded grammar (distinct by structure; non-trivial = not void) through the real encoder/decoder, plus its NULL-pointer variant; programs: one per (builtin, argument size class), distinct by the hash of the in-process stdout",
        "exhaustive": True,
        "samples": [cases[1], cases[len(cases) // 2]] + samples[:3],
    })
    return "model_checking", cov, assumptions


def replay(ctx, path):
    tree = ctx.build("plain")
    probe = ctx.probe("cop_probe")
    if path.endswith(".ndjson") and "trace-" in os.path.basename(path):
        from props import cop_trace
        return cop_trace.replay_trace(ctx, L.extract_consts(ctx, tree, probe), probe, path, "C15")
    d = json.load(open(path))
    _, runner = L.build_standins(ctx, tree)
    work = ctx.dir("replay")
    if d.get("kind") == "codec":
        cf = os.path.join(work, "case.ndjson")
        open(cf, "w").write(json.dumps(d["case"]) + "\n")
        p = sh([probe, cf], env=ctx.env(), check=False)
        print(p.stdout)
        bad = p.returncode != 0 or any('"ok":false' in l for l in p.stdout.splitlines())
    else:
        make_world(work)
        nvm, err = L.compile_nano(ctx, tree, d["source"], "p", work)
        a = L.run_vm(ctx, tree, runner, nvm, work, "inproc", isolate=False, extra_env=d.get("env"))
        if os.path.exists(os.path.join(work, "c15.data")):
            os.remove(os.path.join(work, "c15.data"))
        b = L.run_vm(ctx, tree, runner, nvm, work, "isolated", isolate=True, cop_dir=os.path.join(tree, "bin"), extra_env=d.get("env"))
        print("in process: %s %s\n%s" % (a["res"], a["code"], a["stdout"].decode(errors="replace")[:1500]))
        print("isolated:   %s %s\n%s\n%s" % (b["res"], b["code"], b["stdout"].decode(errors="replace")[:1500], b["stderr"][-400:]))
        bad = (a["res"], a["code"], a["stdout"]) != (b["res"], b["code"], b["stdout"])
    if bad:
        print("VIOLATION property=C15 replay=%s" % path)
    return 1 if bad else 0
