"""C02L — developer entry for the library part of C01/C02/C03/C04: `./check C02L` runs only props/c02_lib.py
(the standard library against spec/NanoLib.tla on native, NanoVM, stand-alone nano_vm and the compile-time evaluator)."""
from lib.common import *
from props import c02_lib

PROP = "C02L"


def run(ctx):
    stats, samples, cov = c02_lib.run_lib(ctx)
    cov = dict(cov, samples=samples[:8], classes=dict(stats),
               evaluations=stats["table_checked"] + stats["mix_checked"] + stats["programs_checked"],
               distinct_nontrivial=stats["table_cases"] + stats["programs"],
               rule="case table: every library function x boundary argument tuples (TLC-enumerated from spec/NanoLibTable.tla, distinct by construction) "
                    "+ seeded random tuples; each case on 4 engines; laws of spec/NanoLibLaws.tla model-checked; program families and the higher-order table "
                    "prescribed by NanoSem")
    return "model_checking", cov, [
        "NanoLib.tla / NanoSem.tla (higher-order block) transcribe docs/STDLIB.md, ARRAY_SAFETY.md, DYNAMIC_ARRAYS.md; cases tagged INFERRED follow the three engines where the documents are silent",
        "strings are printable ASCII; floats, files, paths, Result and bstring functions are outside this specification",
        "a case prescribed `unspecified:*` is only checked for internal failures (signal, failed build, VM type error)",
        "native programs link a prebuilt archive of the runtime sources nanoc names on its cc command line (same tree, same flags); a failed build is repeated the plain way",
        "list out-of-range accesses are specified as faults although STDLIB says `or 0`: every engine stops (see notes/LIB.md)"]


def replay(ctx, path):
    import json
    rep = json.load(open(path)) if path.endswith(".json") else {"source": open(path).read()}
    print(json.dumps({k: v for k, v in rep.items() if k != "source"}, indent=1)[:4000])
    if "source" in rep:
        print(rep["source"][:6000])
    return 0
