"""C05, affine part — programs that break a static rule for `resource struct` values are refused by all three tools.

spec/NanoAffine.tla is the definition of the rules (use_after_consume, double_consume, use_after_move, consume_in_loop,
leak) as a transition system over the abstract syntax, together with a dynamic semantics of resources;
spec/NanoAffineMC.tla checks on a bounded space of function bodies, generated inside TLC, that the static rules are
sound and exact with respect to the dynamic semantics (SoundInv, ExactInv).
Seeds (lib/families_affine.py) are judged well formed by NanoAffine *and* NanoType and must be accepted by the three
real tools; lib/mutate_affine.py breaks them at single points; TLC (NanoAffineRun) decides which mutants really break
the intended rule (rule in Violates, and some execution of the mutant touches a dead place / loses a live one); each
confirmed mutant goes to nanoc -o, nano_virt --run and nano_virt --emit-nvm -o exactly like props/c05.py does it.
Python moves data: the verdict "ill-formed" is TLC's, the verdict "refused" is the exit status / files / output.

run_affine(ctx) -> (stats: dict, samples: list); violations and known findings are reported through ctx."""
import json, os, re, collections, random, copy
from lib.common import *
from lib.nano_ast import *
from lib import families_affine, mutate_affine
from lib.sem_common import prescribe, job
from lib.run_prog import Engines
from props import c05

COMPONENT = "C05A"
MARK = c05.MARK
DIAG = re.compile(r"Cannot (use|consume) resource '(\w+)'|Resource '(\w+)' (must be|was not) consumed")
ASSUMPTIONS = [
    "spec/NanoAffine.tla is the definition of `breaks a rule for resource values`: by-value passing to a user function consumes (the one reading on "
    "which AFFINE_TYPES_GUIDE `When a function takes a resource by value, I consider it consumed`, AFFINE_TYPES_DESIGN `move-only semantics` and "
    "typechecker.c agree), reading a field borrows, let / return / struct-literal move; leak is a rule for let-bound locals (Guide Error 3/4, Design Rule 1), "
    "not for parameters; resources inside unions, arrays, tuples, globals and nested holders are outside the model",
    "conditions are treated as free (every branch outcome, 0..MaxIter iterations): a mutant counts only when TLC also finds an execution that goes wrong",
    "seeds and mutants use functions written in nanolang as producers / consumers (extern C functions cannot be linked by nanoc)",
]


# ------------------------------------------------------------------ TLC: judging programs
def norm(p):
    """abstract syntax as NanoAffine.tla reads it: structured types, `res` on every struct, externs present"""
    q = json.loads(json.dumps({k: v for k, v in p.items() if k != "__files__"}))
    q.setdefault("externs", [])
    for st in q["structs"]:
        st["res"] = bool(st.get("res", False))
    return annotate_types(q)


def judge(ctx, progs, rules=None, max_iter=2):
    """progs: {id: ast}; rules: {id: intended rule} -> ({id: record}, TlcResult)"""
    if not progs:
        return {}, None
    jf = os.path.join(ctx.scratch, "affine_jobs.%d.ndjson" % len(ctx.tlc_runs))
    with open(jf, "w") as f:
        for pid, p in progs.items():
            f.write(json.dumps({"id": pid, "prog": norm(p), "rule": (rules or {}).get(pid, "")}) + "\n")
    r = tlc(ctx, "NanoAffineRun", env={"AFFINE_JOBS": jf}, xss="512m", timeout=1500, constants={"MaxIter": str(max_iter)})
    if r.violated:
        raise InfraError("NanoAffineRun reported %s: the static rules and the dynamic semantics of NanoAffine.tla disagree on a judged program\n%s"
                         % (r.violated, "\n".join(r.trace)[-1500:]))
    recs = {rec["id"]: rec for rec in r.records}
    missing = [pid for pid in progs if pid not in recs]
    if missing:
        raise InfraError("NanoAffineRun produced no result for %d jobs (e.g. %s)\n%s" % (len(missing), missing[:3], r.out[-1500:]))
    return recs, r


def meta_property(ctx):
    """the TLC-checked soundness / exactness of the discipline on the bounded space of bodies"""
    runs = ["NanoAffineMC_q3", "NanoAffineMC_q2"] if ctx.tier == "quick" else ["NanoAffineMC_q3", "NanoAffineMC_q2", "NanoAffineMC_t2", "NanoAffineMC_t3p", "NanoAffineMC_t4"]
    tot = dict(states=0, transitions=0, runs=[])
    for name in runs:
        r = tlc(ctx, "NanoAffineMC", cfg=name, xss="512m", timeout=3000)
        if r.violated:
            raise InfraError("NanoAffineMC (%s): %s is violated - the affine discipline of NanoAffine.tla is not sound / exact:\n%s"
                             % (name, r.violated, "\n".join(r.trace)[-2000:]))
        if "Model checking completed. No error has been found" not in r.out:
            raise InfraError("NanoAffineMC (%s) did not complete:\n%s" % (name, r.out[-1500:]))
        tot["states"] += r.distinct; tot["transitions"] += r.generated
        tot["runs"].append(dict(cfg=name, distinct=r.distinct, depth=r.depth, wall_s=round(r.wall, 1)))
    return tot


# ------------------------------------------------------------------ seeds and mutants
def with_marker(p):
    q = copy.deepcopy(p)
    for f in q["funcs"]:
        if f["n"] == "main":
            f["body"].insert(0, Println(S(MARK)))
    return q


def wrapped_variants(seeds):
    """thorough tier: the body of main inside a branch / a loop that runs once (resources local to the block)"""
    out = {}
    for k, p in seeds.items():
        main = [f for f in p["funcs"] if f["n"] == "main"][0]
        body = main["body"]
        if not body or body[-1]["k"] != "ret" or any(s["k"] == "ret" for s in body[:-1]):
            continue
        for tag, wrap in (("in_if", lambda b: If(Bin("==", I(1), I(1)), b, [])), ("in_for", lambda b: For("zq_o", I(0), I(1), b))):
            q = copy.deepcopy(p)
            m2 = [f for f in q["funcs"] if f["n"] == "main"][0]
            m2["body"] = [wrap(copy.deepcopy(body[:-1])), copy.deepcopy(body[-1])]
            out["%s_%s" % (k, tag)] = q
    return out


def pick(ctx, conf):
    """quick tier: a stratified sample - every (operator, place kind, position, rule) class keeps its first members"""
    if ctx.tier != "quick":
        return dict(conf)
    rnd = random.Random(ctx.seed)
    by = collections.defaultdict(list)
    for mid, m in conf.items():
        by[(m["op"], m["ctx"].split(" over=")[0], m["rule"])].append(mid)
    out = {}
    for key in sorted(by):
        ids = sorted(by[key]); rnd.shuffle(ids)
        for mid in ids[:1]:
            out[mid] = conf[mid]
    return out


def diag_count(res, var):
    """per tool: number of resource diagnostics that name the variable"""
    out = {}
    for tool, x in res.items():
        t = (x["err"] + x["out"]).decode(errors="replace")
        out[tool] = sum(1 for m in DIAG.finditer(t) if var in (m.group(2), m.group(3)))
    return out


def problems_of(res):
    problems = []
    for tool, x in res.items():
        out = x["out"].decode(errors="replace"); err = x["err"].decode(errors="replace")
        if x["rc"] == 0: problems.append("%s exits 0" % tool)
        elif x["rc"] is None: problems.append("%s ended by %s" % (tool, "timeout" if x["timeout"] else "signal %s" % x["sig"]))
        if x["artifact"]: problems.append("%s wrote its output file" % tool)
        if MARK in out: problems.append("%s executed the program" % tool)
        if x["rc"] not in (0, None) and not (err.strip() or "rror" in out): problems.append("%s gave no diagnostic" % tool)
    return problems


def match_finding(kf, m, res, diagnosed):
    """a known finding explains a mutant that all three tools *accepted* (exit 0), by rule + place kind + operator +
    whether every tool printed a resource diagnostic naming the variable (and accepted the program all the same)"""
    if any(x["rc"] != 0 for x in res.values()):
        return None
    place = re.search(r"place=(\w+)", m["ctx"]).group(1)
    for f in kf:
        mt = f.get("match", {})
        if m["rule"] not in mt.get("rules", []): continue
        if place not in mt.get("places", [place]): continue
        if not re.search(mt.get("op_regex", "."), m["op"]): continue
        if "diagnosed" in mt and mt["diagnosed"] != diagnosed: continue
        return f["id"]
    return None


def run_affine(ctx):
    stats = collections.Counter(); samples = []
    mp = meta_property(ctx)
    stats["mc_states"] = mp["states"]; stats["mc_transitions"] = mp["transitions"]
    # ---- seeds: well formed for both specifications, accepted by the three tools
    seeds = families_affine.all_seeds()
    if ctx.tier == "thorough":
        seeds.update(wrapped_variants(seeds))
    srec, r1 = judge(ctx, seeds)
    bad = {k: v["findings"] for k, v in srec.items() if v["violates"]}
    if bad:
        raise InfraError("seed programs are not well formed for NanoAffine.tla: %s" % json.dumps(bad)[:600])
    trec, r2 = prescribe(ctx, [job("s." + k, annotate_types(copy.deepcopy(p)), what="type") for k, p in seeds.items()])
    badt = [k for k, v in trec.items() if not v["wt"]]
    if badt:
        raise InfraError("seed programs are not well typed for NanoType.tla: %s %s" % (badt[:3], trec[badt[0]]["violates"]))
    eng = Engines(ctx)
    sres = dict(parallel_map(lambda k: (k, c05.run_tools(ctx, eng, "seed." + k, pretty(with_marker(seeds[k])))), list(seeds)))
    accepted = {}
    for k, res in sres.items():
        if all(x["rc"] == 0 for x in res.values()) and res["nanoc"]["artifact"] and res["emit"]["artifact"] and MARK in res["run"]["out"].decode(errors="replace"):
            accepted[k] = seeds[k]
            if any(DIAG.search((x["err"] + x["out"]).decode(errors="replace")) for x in res.values()):
                stats["seeds_accepted_with_false_resource_diagnostic"] += 1
        else:
            stats["seeds_refused_by_a_tool"] += 1        # not a C05 matter (the program is well formed); its mutants prove nothing
            log("seed %s is well formed but not accepted: %s" % (k, {t: x["rc"] for t, x in res.items()}))
    stats["seeds"] = len(seeds); stats["seeds_accepted_by_all_tools"] = len(accepted)
    if not accepted:
        raise InfraError("no well-formed resource seed is accepted by the three tools: nothing can be concluded from refused mutants")
    # ---- mutants, judged by TLC
    allm = {}
    for k in sorted(accepted):
        for m in mutate_affine.mutants(with_marker(accepted[k]), k):
            m["seed"] = k
            allm[m["id"]] = m
    mrec, r3 = judge(ctx, {mid: m["prog"] for mid, m in allm.items()}, {mid: m["rule"] for mid, m in allm.items()},
                     max_iter=2 if ctx.tier == "quick" else 3)
    mtyp, r4 = prescribe(ctx, [job(mid, annotate_types(copy.deepcopy(m["prog"])), what="type") for mid, m in allm.items()])
    conf = {mid: m for mid, m in allm.items() if m["rule"] in mrec[mid]["witnessed"] and mtyp[mid]["wt"]}
    stats["mutants_generated"] = len(allm); stats["mutants_breaking_intended_rule"] = len(conf)
    stats["mutants_not_well_typed_otherwise"] = sum(1 for mid in allm if not mtyp[mid]["wt"])
    used = pick(ctx, conf)
    stats["mutants_run"] = len(used)
    results = dict(parallel_map(lambda mid: (mid, c05.run_tools(ctx, eng, "aff." + mid, pretty(used[mid]["prog"]))), list(used)))
    kf = [f for f in findings_for("C05") if f.get("component") == COMPONENT]
    if os.environ.get("VERIF_C05A_ASSUME_FIXED"):        # developer switch: judge a tree as if the C05A findings were marked fixed
        kf = []
    seen = set()
    for mid in sorted(results):
        res, m = results[mid], used[mid]
        src = pretty(m["prog"]); seen.add(sha(src))
        stats["rule:" + m["rule"]] += 1
        problems = problems_of(res)
        if not problems:
            stats["rejected_by_all_tools"] += 1
            if len(samples) < 3:
                samples.append({"mutant": mid, "rule": m["rule"], "what": m["what"], "violates": mrec[mid]["violates"], "nanoc_exit": res["nanoc"]["rc"],
                                "diagnostic": (res["run"]["err"].decode(errors="replace").strip().splitlines() or [""])[0][:120]})
            continue
        var = mrec[mid]["findings"] and sorted({d["x"].split(".")[0] for d in mrec[mid]["findings"] if d["r"] == m["rule"]})[0]
        dm = diag_count(res, var)
        diagnosed = all(dm[t] > 0 for t in dm)           # every tool printed a resource diagnostic that names the variable ... and went on
        hit = match_finding(kf, m, res, diagnosed)
        if hit:
            ctx.known(hit, "%s (%s; %s): %s" % (mid, m["what"], m["ctx"], "; ".join(problems)[:160])); stats["known:" + hit] += 1
            if len(samples) < 3:
                samples.append({"mutant": mid, "rule": m["rule"], "what": m["what"], "violates": mrec[mid]["violates"], "known_finding": hit,
                                "resource_diagnostic_for_the_mutation": diagnosed, "source_of_mutated_function": src[src.find("fn " + m["what"].split(" in ")[-1]):][:500]})
            continue
        rep = {"mutant": mid, "rule": m["rule"], "op": m["op"], "ctx": m["ctx"], "mutation": m["what"], "spec_findings": mrec[mid]["findings"],
               "resource_diagnostic_for_the_mutation": diagnosed, "problems": problems, "source": src,
               "tools": {t: {"exit": x["rc"], "stderr": x["err"].decode(errors="replace")[-600:], "stdout": x["out"].decode(errors="replace")[-300:]} for t, x in res.items()}}
        ctx.save_replay(mid + ".nano", src)
        ctx.violation("%s breaks the resource rule `%s` (%s; %s; resource diagnostic for it: %s) but: %s"
                      % (mid, m["rule"], m["what"], m["ctx"], diagnosed, "; ".join(problems)), ctx.save_replay(mid + ".json", json.dumps(rep, indent=1)))
    stats["distinct_sources"] = len(seen)
    stats["tlc_states"] = sum(r.distinct for r in (r1, r2, r3, r4) if r) + mp["states"]
    stats["tlc_transitions"] = sum(r.generated for r in (r1, r2, r3, r4) if r) + mp["transitions"]
    stats["evaluations"] = 3 * (len(results) + len(sres))
    return dict(stats, mc_runs=mp["runs"]), samples or [{"note": "none"}]


def replay(ctx, path):
    rep = json.load(open(path))
    print(json.dumps({k: v for k, v in rep.items() if k not in ("source", "tools")}, indent=1))
    eng = Engines(ctx)
    res = c05.run_tools(ctx, eng, "replay", rep["source"])
    print(json.dumps({t: {"exit": x["rc"], "artifact": x["artifact"], "executed": MARK in x["out"].decode(errors="replace"),
                          "stderr": x["err"].decode(errors="replace")[-400:]} for t, x in res.items()}, indent=1))
    return 1 if problems_of(res) else 0
