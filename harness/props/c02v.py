"""C02V — developer entry for the instruction-level part of C02: every instruction the NanoVM executes transforms the
machine state as spec/NanoVMVal.tla prescribes for its opcode (trace validation through hook H7), plus the laws of the
specification itself (NanoVMValLaws)."""
import json, os
from lib.common import *
from lib.nano_ast import pretty
from lib.gen_prog import Gen
from lib import families
from props import vmval_lib

PROP = "C02V"


def corpus(ctx):
    progs = {}
    for k, p in families.all_families().items():
        if "__files__" in p:
            continue
        progs["fam_" + k] = pretty(p)
    for k, src in vmval_lib_extra().items():
        progs["vv_" + k] = src
    n = 20 if ctx.tier == "quick" else 300
    for i in range(n):
        progs["gen_%d_%d" % (ctx.seed, i)] = pretty(Gen(ctx.seed * 9000011 + i).program())
    for i in range(n // 3):                  # HashMap instructions
        progs["genmap_%d_%d" % (ctx.seed, i)] = pretty(Gen(ctx.seed * 9000011 + 500000 + i, features={"maps": True, "fnvals": i % 2 == 1}).program())
    return progs


def vmval_lib_extra():
    """a few hand-written programs that reach opcodes / operand values the families and the generator do not"""
    d = os.path.join(VERIF, "harness", "props", "c02v_programs")
    out = {}
    if os.path.isdir(d):
        for f in sorted(os.listdir(d)):
            if f.endswith(".nano") or f.endswith(".nasm"):       # .nasm: NanoISA assembly, first line `; nasm`
                out[f.rsplit(".", 1)[0]] = open(os.path.join(d, f)).read()
    return out


BUGS = ("ret_keeps_a_local", "lt_swapped_when_both_negative", "backward_jump_off_by_one")


def laws(ctx):
    """the laws of the specification itself, and the vacuity control: every deliberately wrong variant of Step must break a law"""
    steps = "4" if ctx.tier == "quick" else "5"
    w = max(2, NCPU // 2)

    def good(_):
        return [("none", tlc(ctx, "NanoVMValLaws", timeout=3000, xss="256m", workers=w, constants={"MaxSteps": steps, "MaxN": "5", "Bug": '"none"'}))]

    def bad(_):      # one after the other: lib.common.tlc names its work directory after the cfg, concurrent runs need distinct cfg names
        return [(b, tlc(ctx, "NanoVMValLaws", cfg="NanoVMValLawsBug", timeout=3000, xss="256m", workers=max(2, NCPU // 4),
                        constants={"MaxSteps": "2", "MaxN": "5", "Bug": '"%s"' % b})) for b in BUGS]
    res = dict(sum(parallel_map(lambda f: f(0), [good, bad], jobs=2), []))
    if res["none"].violated:
        raise InfraError("NanoVMValLaws: %s violated on the specification itself\n%s" % (res["none"].violated, "\n".join(res["none"].trace[-2:])))
    for b in BUGS:
        if not res[b].violated:
            raise InfraError("vacuity: NanoVMValLaws does not notice the wrong Step variant %s" % b)
    return res["none"], {b: res[b].violated for b in BUGS}


def run(ctx):
    rl, vac = laws(ctx)
    progs = corpus(ctx)
    head = 3000 if ctx.tier == "quick" else None
    res = vmval_lib.validate(ctx, progs, head=head)
    st = res["stats"]
    cov = dict(states=rl.distinct + st.get("lines", 0), transitions=rl.generated + st.get("steps", 0),
               traces_validated_against_impl=res["programs_traced"], evaluations=st.get("conform", 0) + st.get("deviates", 0),
               distinct_nontrivial=len(res["per_opcode"]), samples=[{"first_instruction_line": res["sample"]}],
               laws=dict(distinct=rl.distinct, generated=rl.generated, wall_s=round(rl.wall, 1), wrong_variants_detected_by=vac),
               vmval=res,
               rule="every family program (single-file) + hand-written opcode programs + seeded generator programs; every recorded instruction is judged "
                    "(first %s trace lines of a run in the quick tier); fuel %d instructions per run" % (head, vmval_lib.FUEL))
    return "model_checking", cov, [
        "hook H7 is part of the trusted base: it reports, as deltas against its own shadow copies, everything in stack, top frame, globals and containers "
        "that changed between two hook points; object identities come from the H2 registry",
        "float arithmetic, float/str conversions and int<->float comparisons are specified by type only (value unspecified)",
        "cross-module calls, element-wise array arithmetic and hash-map keys of mixed kinds are not specified (accepted, counted by name); the position of a new hash-map entry is not prescribed",
        "strings longer than 64 bytes are compared by length (and content key for equality)"]


def replay(ctx, path):
    rep = json.load(open(path))
    print(json.dumps({k: v for k, v in rep.items() if k not in ("source", "raw")}, indent=1))
    if rep.get("source"):
        res = vmval_lib.validate(ctx, {rep["program"]: rep["source"]})
        print(json.dumps(res["stats"], indent=1))
        return 1 if ctx.violations else 0
    return 0
