"""The generator-exploration driver (props/gx.py) as a component of the property checks: each property runs the stages that
concern it and reports only the disagreements gx.py classifies under that property (NEW ones as violations, the others
under their listed findings)."""
import os
from props import gx

# property -> (stages of gx.py, issue classes reported under this property)
PARTS = {
    "C02": (("native", "vm", "nano_vm", "h7"), ("C02", "C02V", "C01")),
    "C03": (("vm", "interp", "iasan"), ("C03",)),
    "C04": (("native", "vm", "nano_vm", "interp", "iasan"), ("C04",)),
    "C14": (("vm", "h1"), ("C14",)),
    "C20": (("vm", "asan"), ("C20",)),
}


class _Filter:
    """a view of the check context that lets through only what belongs to the running property"""
    def __init__(self, ctx, classes):
        object.__setattr__(self, "_ctx", ctx); object.__setattr__(self, "_classes", classes); object.__setattr__(self, "dropped", 0)

    def __getattr__(self, name):
        return getattr(self._ctx, name)

    def __setattr__(self, name, value):
        setattr(self._ctx, name, value)

    def violation(self, text, path=None):
        if any(text.startswith("NEW %s " % c) for c in self._classes):
            return self._ctx.violation(text, path)
        object.__setattr__(self, "dropped", self.dropped + 1)

    def known(self, fid, text):
        if any(text.startswith(c + " ") for c in self._classes):
            return self._ctx.known(fid, text)


def run_part(ctx, prop=None):
    prop = prop or ctx.prop
    stages, classes = PARTS[prop]
    old = os.environ.get("GX_STAGES")
    os.environ["GX_STAGES"] = ",".join(stages)
    try:
        f = _Filter(ctx, classes)
        _, cov, _ = gx.run(f)
    finally:
        if old is None: os.environ.pop("GX_STAGES", None)
        else: os.environ["GX_STAGES"] = old
    keep = {k: cov[k] for k in ("programs", "judged", "accepted", "feature_sets", "new_clusters", "evaluations") if k in cov}
    keep["stages"] = list(stages); keep["reported_classes"] = list(classes); keep["disagreements_of_other_properties_not_reported_here"] = f.dropped
    keep["classes"] = {k: v for k, v in cov.get("classes", {}).items() if k.startswith(("compared:", "known:", "status:", "accepted", "wall_"))}
    return keep
