"""Glue shared by props/c12.py and props/c13_loader.py (loader slice: spec/NvmLoad.tla,
spec/NvmLoadTrace.tla, probes/nvmfault_probe.c, hooks/h3-loader-trace.patch).

No oracle here: constants are read from the code, verdicts come out of TLC."""
import json
import os

from lib.common import InfraError, log, sh, tlc

PROBE = "nvmfault_probe"
CONST_NAMES = ("HeaderSize", "SecEntrySize", "FnEntrySize", "DbgEntrySize", "ImpBaseSize", "MaxSections",
               "FormatVersion", "Magic0", "Magic1", "Magic2", "Magic3",
               "SecCode", "SecStrings", "SecFunctions", "SecImports", "SecDebug")


def workers(ctx):
    return None if os.environ.get("VERIF_JOBS") is None else int(os.environ["VERIF_JOBS"])


def constants(ctx, probe):
    """NVM_* macros of the tree under test, as TLC constants (DESIGN 5.1 rule 2)."""
    c = json.loads(sh([probe, "consts"], env=ctx.env()).stdout)
    if c["sizeof_sections"] != c["MaxSections"]:
        # NvmModule.sections[] must hold NVM_MAX_SECTIONS entries: the spec relies on it for i < section_count
        raise InfraError("NvmModule.sections has %d entries but NVM_MAX_SECTIONS = %d: spec/NvmLoad.tla must model "
                         "the directory array separately" % (c["sizeof_sections"], c["MaxSections"]))
    return {k: str(c[k]) for k in CONST_NAMES}, c


def hook_present(tree):
    """Is hook H3 (hooks/h3-loader-trace.patch) applied to the tree under test?"""
    try:
        return "nlv_loader_ev" in open(os.path.join(tree, "src", "nanoisa", "nvm_format.c")).read()
    except OSError:
        return False


def ndjson(text):
    out = []
    for line in text.splitlines():
        line = line.strip()
        if line.startswith("{"):
            try:
                out.append(json.loads(line))
            except ValueError:          # a line cut short by a crash of the process that wrote it
                pass
    return out


def run_trace(ctx, cfg, trace_path, consts, timeout=900):
    """TLC on NvmLoadTrace with TRACE=<file>.  Returns (end-record, rejected[], undefined[], TlcResult)."""
    r = tlc(ctx, "NvmLoadTrace", cfg, workers=1, constants=consts, env={"TRACE": trace_path}, timeout=timeout)
    seen = set()
    end, rej, und = None, [], []
    for rec in r.records:
        key = json.dumps(rec, sort_keys=True)
        if key in seen:            # ENABLED evaluates the printing conjuncts once more
            continue
        seen.add(key)
        if rec.get("k") == "end":
            end = rec
        elif rec.get("k") == "rejected":
            rej.append(rec)
        elif rec.get("k") == "undefined":
            und.append(rec)
    return end, rej, und, r


def split_trace(path):
    """trace file -> {load id: [lines]} (a load = its Reset line and the events up to the next Reset)"""
    loads, cur, order = {}, None, []
    with open(path) as f:
        for line in f:
            if line.startswith('{"e":"Reset"'):
                cur = json.loads(line)["id"]
                loads[cur] = [line]
                order.append(cur)
            elif cur is not None:
                loads[cur].append(line)
    return loads, order
