"""C08 — out-of-range operations stop the program and never yield a value.
spec/NanoSemBounds.tla enumerates (length, index, operation, context), proves the rule on the specification
(INVARIANT Stops) and prints each case as a program with its prescribed output prefix; every case is replayed on the
native backend, the NanoVM and the compile-time evaluator (the same calls in a shadow block)."""
import json, os, collections, copy
from lib.common import *
from lib.nano_ast import *
from lib.sem_common import *
from lib.shadow_common import parse_transcript
from lib.run_prog import Engines

PROP = "C08"


def run(ctx):
    r = tlc(ctx, "NanoSemBounds", xss="512m", timeout=900, constants={"MaxLen": "3" if ctx.tier == "quick" else "4"})
    if r.violated:
        raise InfraError("NanoSemBounds: %s violated on the specification itself" % r.violated)
    cases = {"%s_%s_%s_n%d" % (c["op"], c["kind"], c["cx"], c["n"]): c for c in r.records}
    eng = Engines(ctx)
    asan = Engines(ctx, "asan") if ctx.tier == "thorough" else None

    def one(cid):
        c = cases[cid]
        p = c["prog"]
        d = eng.write(cid, pretty(p))
        res = {"native": eng.native(d), "vm": eng.vm(d), "src": pretty(p)}
        eng.emit(d)                                   # the stored module run by the stand-alone nano_vm (its own exit path)
        res["nano_vm"] = eng.nano_vm(d) if os.path.exists(os.path.join(d, "p.nvm")) else eng.vm(d)
        q = copy.deepcopy(p)
        q["shadows"] = [{"fn": "body", "b": [Assert(Bin("==", Call("body"), I(0)))]}]
        d2 = eng.write(cid + ".sh", pretty(q))
        res["interp"] = eng.shadow_only(d2)
        if asan:
            d3 = asan.write(cid + ".asan", pretty(p))
            res["vm_asan"] = asan.vm(d3)
        return cid, res
    runs = dict(parallel_map(one, list(cases)))
    stats = collections.Counter(); samples = []
    ks = {}
    for f in findings_for(PROP):
        ks[f["id"]] = f
    for cid, c in cases.items():
        want = render_out(c["out"]).encode()
        rr = runs[cid]
        for engine in ("native", "vm", "nano_vm", "interp") + (("vm_asan",) if asan else ()):
            x = rr[engine]
            if engine == "native":
                if not x["exe"]:
                    stats["native-no-exe:" + compile_class(x)] += 1
                    continue
                x = x["run"]
            if engine == "interp":
                text = x["out"].decode(errors="replace")          # stdout carries the transcript; diagnostics go to stderr
                ev, tests = parse_transcript(text)
                body = [t for t in tests if t["name"] == "body"]
                out = body[0]["out"].encode() if body else b""
                stopped = x["rc"] not in (0, None)
                if not any(e["e"] == "tc_ok" for e in ev):
                    stats["interp-rejected"] += 1
                    continue
            else:
                out = x["out"]
                # a run-time panic: non-zero exit status, or abort() (SIGABRT, shell status 134) from a runtime assertion;
                # any other signal (SIGSEGV, SIGBUS, SIGFPE) means memory was touched outside the object
                stopped = ((x["rc"] not in (0, None)) or x["sig"] == 6) and not x["timeout"]
                if engine == "vm_asan" and (b"AddressSanitizer" in x["err"] or b"runtime error:" in x["err"] and b"UndefinedBehavior" in x["err"]):
                    ctx.violation("sanitizer report on the VM for %s" % cid, ctx.save_replay(cid + ".asan.txt", x["err"].decode(errors="replace")[-4000:]))
                    continue
            stats["%s:checked" % engine] += 1
            problem = None
            if c["faulting"]:
                if b"after" in out.split(b"\n"):
                    problem = "the statement after the faulting access was executed"
                elif not stopped:
                    problem = "the run did not end with a non-zero exit status (%s)" % (observe(x)[:2],)
                elif not want.startswith(out):       # buffered output may be lost at a panic; anything *beyond* the prefix is a kept value
                    problem = "output %r goes beyond the prescribed prefix %r (the access yielded a value?)" % (out[-60:], want[-60:])
            else:
                if out != want or (engine != "interp" and x["rc"] != 0) or (engine == "interp" and x["rc"] != 0):
                    problem = "in-range access: output %r exit %s, prescribed %r exit 0" % (out[-60:], x["rc"], want[-60:])
            if problem is None:
                stats["%s:as-prescribed" % engine] += 1
                if len(samples) < 3 and c["faulting"]:
                    samples.append({"case": cid, "engine": engine, "index": limbs_to_int(c["idx"]), "n": c["n"], "stdout": out.decode(errors="replace"), "exit": x["rc"]})
                continue
            # known finding?  matched by engine + operation + index class
            hit = None
            for fid, f in ks.items():
                m = f.get("match", {})
                if engine.replace("_asan", "") in m.get("engines", []) and c["op"] in m.get("ops", []) and c["kind"] in m.get("index_kinds", []):
                    hit = fid
            if hit:
                ctx.known(hit, "%s: %s (e.g. case %s)" % (engine, problem[:90], cid))
                stats["known:" + hit] += 1
            else:
                rep = {"case": cid, "engine": engine, "problem": problem, "n": c["n"], "index": limbs_to_int(c["idx"]), "op": c["op"], "context": c["cx"],
                       "prescribed_stdout": want.decode(), "observed_stdout": out.decode(errors="replace"), "observed_exit": x["rc"], "source": rr["src"]}
                ctx.save_replay("%s_%s.nano" % (cid, engine), rr["src"])
                ctx.violation("%s %s: %s" % (engine, cid, problem), ctx.save_replay("%s_%s.json" % (cid, engine), json.dumps(rep, indent=1)))
    history_family(ctx, eng, stats)
    n_checked = sum(v for k, v in stats.items() if k.endswith(":checked"))
    cov = dict(states=r.distinct, transitions=r.generated, traces_validated_against_impl=0, samples=samples or [{"note": "none"}],
               evaluations=n_checked, distinct_nontrivial=len(cases), classes=dict(stats), exhaustive=True,
               rule="all (length 0..MaxLen) x 10 index kinds (-1, n, n+1, -2^63, 2^63-1, 2^32, 2^32+k, 2^31, first, last) x {read, write, pop} x {straight, loop, callee, computed index}; distinct by construction; replayed on native, VM and evaluator")
    return "model_checking", cov, ["NanoSemBounds.tla: INVARIANT Stops holds on the specification for every enumerated case",
                                   "memory safety of the access itself: VM cases re-run on the ASan/UBSan build in the thorough tier (native runtime: C20)"]


def history_family(ctx, eng, stats):
    """accesses that are out of range only because of what happened to the array before (its storage is larger than its
    length after a push or a pop, a loop shrinks the array it walks): the access must stop the program all the same.
    Prescribed by NanoSem; for the for-in loop both documented-silent readings (length re-read / read once) are accepted."""
    AI = "array<int>"
    def body(stmts): return Program([Func("body", [], "int", list(stmts) + [Ret(I(0))]), Func("main", [], "int", [Ret(Call("body"))])])
    start = Let("a", AI, ALit("int", [I(1), I(2), I(3)]), True)
    mark = [Println(S("before"))]; after = [Println(S("after"))]
    progs = {
        "hist_push_then_set_beyond_length": body([start, Set("a", Call("array_push", V("a"), I(4)))] + mark + [Ex(Call("array_set", V("a"), I(5), I(99)))] + after),
        "hist_push_then_read_beyond_length": body([start, Set("a", Call("array_push", V("a"), I(4)))] + mark + [Println(Call("at", V("a"), I(4)))] + after),
        "hist_pop_then_set_old_last": body([start, Ex(Call("array_pop", V("a")))] + mark + [Ex(Call("array_set", V("a"), I(2), I(7)))] + after),
        "hist_pop_then_read_old_last": body([start, Ex(Call("array_pop", V("a")))] + mark + [Println(Call("at", V("a"), I(2)))] + after),
        "hist_remove_at_then_read_old_last": body([start, Set("a", Call("array_remove_at", V("a"), I(0)))] + mark + [Println(Call("at", V("a"), I(2)))] + after),
        "hist_pop_all_then_pop": body([start, Ex(Call("array_pop", V("a"))), Ex(Call("array_pop", V("a"))), Ex(Call("array_pop", V("a")))] + mark + [Println(Call("array_pop", V("a")))] + after),
        "hist_push_pop_in_range_control": body([start, Set("a", Call("array_push", V("a"), I(4))), Ex(Call("array_pop", V("a")))] + mark + [Println(Call("at", V("a"), I(2)))] + after),
        "hist_forin_shrinks_own_array": body([Let("a", AI, ALit("int", [I(10), I(20), I(30), I(40), I(50), I(60)]), True), Let("seen", "int", I(0), True),
                                              ForIn("x", V("a"), [Println(V("x")), Set("seen", Bin("+", V("seen"), I(1))),
                                                                  If(Bin(">", Call("array_length", V("a")), V("seen")), [Ex(Call("array_pop", V("a")))], [])]),
                                              Println(V("seen"))]),
    }
    jobs = [job(pid, p) for pid, p in progs.items()] + [job("hist_forin_shrinks_own_array|snap", progs["hist_forin_shrinks_own_array"], dev=["FORIN_LENGTH_SNAPSHOT"])]
    recs, _ = prescribe(ctx, jobs)

    def one(pid):
        p = progs[pid]
        d = eng.write(pid, pretty(p))
        res = {"native": eng.native(d), "vm": eng.vm(d), "src": pretty(p)}
        eng.emit(d)
        res["nano_vm"] = eng.nano_vm(d) if os.path.exists(os.path.join(d, "p.nvm")) else eng.vm(d)
        q = copy.deepcopy(p); q["shadows"] = [{"fn": "body", "b": [Assert(Bin("==", Call("body"), I(0)))]}]
        res["interp"] = eng.shadow_only(eng.write(pid + ".sh", pretty(q)))
        return pid, res
    runs = dict(parallel_map(one, list(progs)))
    for pid, rr in runs.items():
        alts = [recs[pid]] + ([recs[pid + "|snap"]] if pid + "|snap" in recs else [])
        for engine in ("native", "vm", "nano_vm", "interp"):
            x = rr[engine]
            if engine == "native":
                if not x["exe"]:
                    stats["native-no-exe:" + compile_class(x)] += 1; continue
                x = x["run"]
            if engine == "interp":
                ev, tests = parse_transcript(x["out"].decode(errors="replace"))
                b_ = [t for t in tests if t["name"] == "body"]
                out = b_[0]["out"].encode() if b_ else b""
                if not any(e["e"] == "tc_ok" for e in ev):
                    stats["interp-rejected"] += 1; continue
            else:
                out = x["out"]
            stopped = ((x["rc"] not in (0, None)) or x["sig"] == 6) and not x["timeout"]
            stats["%s:checked" % engine] += 1
            ok = False
            for o in alts:
                want = render_out(o["out"]).encode()
                if o["status"] == "ok":
                    ok = ok or (out == want and x["rc"] == 0)
                elif o["status"].startswith("fault:"):
                    ok = ok or (stopped and want.startswith(out) and b"after" not in out.split(b"\n"))
            if ok:
                stats["%s:as-prescribed" % engine] += 1
                continue
            rep = {"case": pid, "engine": engine, "acceptable": [{"status": o["status"], "stdout": render_out(o["out"])} for o in alts],
                   "observed_stdout": out.decode(errors="replace"), "observed_exit": x["rc"], "observed_signal": x["sig"], "source": rr["src"]}
            ctx.save_replay("%s_%s.nano" % (pid, engine), rr["src"])
            ctx.violation("%s %s: observed %r exit %s, acceptable: %s" % (engine, pid, out[-80:], x["rc"], [(o["status"], render_out(o["out"])[-60:]) for o in alts]),
                          ctx.save_replay("%s_%s.json" % (pid, engine), json.dumps(rep, indent=1)))


def replay(ctx, path):
    rep = json.load(open(path)); print(json.dumps({k: v for k, v in rep.items() if k != "source"}, indent=1)); return 0
