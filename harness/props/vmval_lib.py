"""Instruction-level trace validation of the NanoVM against spec/NanoVMVal.tla (hook H7).

validate(ctx, programs) runs every program on the hooked build of the tree under test with
NANOLANG_VERIF_TRACE_VMVAL set, concatenates the traces (Reset lines between runs) and lets TLC judge every
instruction with spec/NanoVMValTrace.tla.  Python moves data only: which successor state an instruction must
produce is decided by NanoVMVal!Step.
"""
import collections, json, os, re
from lib.common import *
from lib.run_prog import _run, RUN_TIMEOUT

PROP_FINDINGS = "C02V"
FUEL = 20000
# VmResult values the specification names (NanoVMVal.tla: Err*); checked against vm.h of the tree under test
SPEC_ERR = {"VM_ERR_CALL_DEPTH": 3, "VM_ERR_INVALID_OPCODE": 4, "VM_ERR_TYPE_ERROR": 5, "VM_ERR_OUT_OF_BOUNDS": 6,
            "VM_ERR_ASSERT_FAILED": 8, "VM_ERR_UNDEFINED_FUNCTION": 10, "VM_ERR_NOT_IMPLEMENTED": 11, "VM_ERR_DECODE": 13}


def _check_constants(tree):
    """the error numbers, tag numbers and limits the spec uses must be those of the code (else the spec is out of date: infra)"""
    h = open(os.path.join(tree, "src/nanovm/vm.h")).read()
    m = re.search(r"typedef enum \{\s*VM_OK = 0,(.*?)\} VmResult;", h, re.S)
    if not m:
        raise InfraError("cannot find VmResult in vm.h")
    names = ["VM_OK"] + re.findall(r"\b(VM_ERR_\w+)", re.sub(r"/\*.*?\*/", "", m.group(1), flags=re.S))
    for k, v in SPEC_ERR.items():
        if k not in names or names.index(k) != v:
            raise InfraError("NanoVMVal.tla names %s = %d but vm.h disagrees" % (k, v))
    for name, val in (("VM_MAX_FRAMES", 1024), ("VM_MAX_GLOBALS", 4096)):
        mm = re.search(r"#define\s+%s\s+(\d+)" % name, h)
        if not mm or int(mm.group(1)) != val:
            raise InfraError("NanoVMVal.tla assumes %s = %d" % (name, val))
    isa = open(os.path.join(tree, "src/nanoisa/isa.h")).read()
    tags = dict((n, int(v, 16)) for n, v in re.findall(r"\b(TAG_\w+)\s*=\s*(0x[0-9A-Fa-f]+)", isa))
    want = dict(TAG_VOID=0, TAG_INT=1, TAG_U8=2, TAG_FLOAT=3, TAG_BOOL=4, TAG_STRING=5, TAG_ARRAY=7, TAG_STRUCT=8, TAG_ENUM=9,
                TAG_UNION=10, TAG_FUNCTION=11, TAG_TUPLE=12, TAG_HASHMAP=13, TAG_OPAQUE=14)
    for k, v in want.items():
        if tags.get(k) != v:
            raise InfraError("NanoVMVal.tla assumes %s = %d" % (k, v))
    ops = re.findall(r'INSTR\d\(OP_\w+,\s*"(\w+)"', open(os.path.join(tree, "src/nanoisa/isa.c")).read())
    return ops


def spec_opcode_sets():
    txt = open(os.path.join(SPEC, "NanoVMVal.tla")).read()
    out = {}
    for name in ("Specified", "Unspecified"):
        m = re.search(r"^%s == \{(.*?)\}" % name, txt, re.S | re.M)
        out[name] = set(re.findall(r'"(\w+)"', m.group(1)))
    return out["Specified"], out["Unspecified"]


def is_asm(src):
    """a program text whose first line is `; nasm` is NanoISA assembly (run through probes/vmval_probe.c), anything else nano source"""
    return src.lstrip().startswith("; nasm")


def record(ctx, tree, pid, src, fuel=FUEL, probe=None):
    d = os.path.join(ctx.scratch, "vv", pid)
    os.makedirs(d, exist_ok=True)
    asm = is_asm(src)
    with open(os.path.join(d, "p.nasm" if asm else "p.nano"), "w") as f:
        f.write(src)
    tf = os.path.join(d, "vmval.ndjson")
    if os.path.exists(tf):
        os.remove(tf)
    e = dict(os.environ)
    e.update(ctx.env({"NANOLANG_VERIF_TRACE_VMVAL": tf, "NANOLANG_VERIF_TRACE_VM": "/dev/null", "NANOLANG_VERIF_FUEL": str(fuel)}))
    cmd = [probe, "p.nasm"] if asm else [os.path.join(tree, "bin", "nano_virt"), "p.nano", "--run"]
    r = _run(cmd, d, e, RUN_TIMEOUT * 3)
    if asm and r["rc"] == 3:
        raise InfraError("assembly program %s does not assemble: %s" % (pid, r["err"].decode(errors="replace")[-300:]))
    lines = []
    if os.path.exists(tf):          # a VM that dies mid-write leaves a partial last line: keep complete events only
        for line in open(tf, errors="replace"):
            try:
                json.loads(line); lines.append(line if line.endswith("\n") else line + "\n")
            except ValueError:
                break
    return dict(run=r, lines=lines, dir=d)


def _select(lines, head):
    """bound the number of validated lines of one run: the first `head` lines (a step is judged from the line of the
    instruction and the line after it, and the state is carried by deltas, so only a prefix can be validated)"""
    if head is None or len(lines) <= head:
        return lines, False
    return lines[:head], True


def validate(ctx, programs, head=None, chunk_lines=5000, fuel=FUEL, label="vmval"):
    """programs: id -> nano source text.  Returns counters; reports every rejected step through ctx.violation / ctx.known."""
    need_probe = any(is_asm(v) for v in programs.values())
    tree = ctx.build("plain") if need_probe else ctx.build("plain", targets=("nano_virt",))
    probe = ctx.probe("vmval_probe") if need_probe else None
    if not os.path.exists(os.path.join(tree, "src/nanovm/verif_vmval.h")):
        raise InfraError("the tree under test (%s) has no hook H7: apply /verif/hooks/h7-vm-values.patch" % REPO)
    isa_ops = _check_constants(tree)
    specified, unspecified = spec_opcode_sets()
    kf = findings_for(PROP_FINDINGS)
    stats = collections.Counter()
    t0 = time.time()
    runs = dict(zip(programs, parallel_map(lambda pid: record(ctx, tree, pid, programs[pid], fuel, probe), list(programs))))
    t_rec = time.time() - t0
    usable = []
    for pid, r in runs.items():
        x = r["run"]
        if x["sig"]:
            stats["killed_by_signal"] += 1
            last = {}
            for line in reversed(r["lines"]):
                ev = json.loads(line)
                if ev.get("e") == "op":
                    last = ev
                    break
            fid = match_known(kf, {"signal": x["sig"], "op": last.get("op", ""), "what": "signal", "want": {"kind": ""}, "pre": []}, programs[pid])
            if fid:
                ctx.known(fid, "%s: the VM is killed by signal %d in instruction %s (step %s)" % (pid, x["sig"], last.get("op"), last.get("k")))
                stats["known:" + fid] += 1
            else:
                ctx.save_replay(pid + ".nano", programs[pid])
                ctx.violation("%s: the VM was killed by signal %d while executing instruction %s at step %s, fn %s ip %s (%s)" % (
                              pid, x["sig"], last.get("op"), last.get("k"), last.get("fn"), last.get("ip"), x["err"].decode(errors="replace")[-120:].strip()),
                              ctx.save_replay(pid + ".crash.json", json.dumps({"program": pid, "signal": x["sig"], "last_instruction": last,
                                              "stderr": x["err"].decode(errors="replace")[-800:], "source": programs[pid]}, indent=1)))
        if x["timeout"]:
            stats["timeout"] += 1
        if not r["lines"]:
            stats["no_trace"] += 1      # not compiled (rejected program) or nothing executed
            continue
        sel, cut = _select(r["lines"], head)
        r["sel"] = sel
        stats["truncated_runs"] += 1 if cut else 0
        stats["recorded_lines"] += len(r["lines"])
        usable.append(pid)
    # chunks
    chunks, cur, n = [], [], 0
    for pid in usable:
        k = len(runs[pid]["sel"]) + 1
        if cur and n + k > chunk_lines:
            chunks.append(cur); cur, n = [], 0
        cur.append(pid); n += k
    if cur:
        chunks.append(cur)

    def check(ci):
        path = os.path.join(ctx.scratch, "%s.%d.ndjson" % (label, ci))
        with open(path, "w") as f:
            for pid in chunks[ci]:
                f.write(json.dumps({"e": "Reset", "run": pid}) + "\n")
                f.write("".join(runs[pid]["sel"]))
            f.write(json.dumps({"e": "Reset", "run": "<end>"}) + "\n")
        r = tlc(ctx, "NanoVMValTrace", workers=1, env={"TRACE": path}, timeout=3600, xss="512m", xmx="3g")
        return ci, path, r
    t0 = time.time()
    results = parallel_map(check, list(range(len(chunks))), jobs=min(12, NCPU))
    t_tlc = time.time() - t0
    per_op, unspec = collections.Counter(), collections.Counter()
    reports, unspec_samples = [], []
    for ci, path, r in results:
        st = [x for x in r.records if x.get("kind") == "stats"]
        summ = [x for x in r.records if x.get("kind") == "summary"]
        if not st or not summ or summ[-1]["consumed"] < summ[-1]["n"]:
            raise InfraError("trace chunk %d was not consumed to the end (%s)\n%s" % (ci, summ, r.out[-3000:]))
        for k2, v in st[-1]["stats"].items():
            stats[k2] += v
        for k2, v in (st[-1]["cnt"].items() if isinstance(st[-1]["cnt"], dict) else []):
            per_op[k2] += v
        for k2, v in (st[-1]["uns"].items() if isinstance(st[-1]["uns"], dict) else []):
            unspec[k2] += v
        reports += [(x, path) for x in r.records if x.get("kind") in ("deviates", "host")]
        for x in r.records:
            if x.get("kind") == "unspec" and len(unspec_samples) < 40:
                unspec_samples.append({"program": x["run"], "step": x["k"], "op": x["op"], "why": x["why"], "fn": x["fn"], "ip": x["ip"]})
    # verdicts
    for x, path in reports:
        pid = x["run"]
        fid = match_known(kf, x, programs.get(pid, ""))
        if fid:
            ctx.known(fid, "%s step %s %s: %s" % (pid, x["k"], x["op"], x["what"])); stats["known:" + fid] += 1
            continue
        ctx.save_replay(pid + ".nano", programs.get(pid, ""))
        rep = {"program": pid, "source": programs.get(pid, ""), "step": x["k"], "trace_line": x["l"], "event": x["e"],
               "instruction": {"op": x["op"], "operands": x["a"], "ip": x["ip"], "fn": x["fn"]},
               "differs_in": x["what"], "stack_before_top4": [show(v) for v in x["pre"]],
               "prescribed": {"kind": x["want"]["kind"], "error_code": x["want"]["code"], "ip": x["want"]["ip"], "fn": x["want"]["fn"], "depth": x["want"]["depth"],
                              "stack_top4": [show(v) for v in x["want"]["stack"]], "to_host": [show(v) for v in x["want"]["tv"]]},
               "observed": {"next_line": x["next"], "ip": x["got"]["ip"], "fn": x["got"]["fn"], "depth": x["got"]["depth"],
                            "stack_top4": [show(v) for v in x["got"]["stack"]], "val": x["got"]["val"] if not isinstance(x["got"]["val"], dict) else show(x["got"]["val"]),
                            "to_host": [show(v) for v in x["got"]["tv"]]},
               "raw": x}
        what = ("%s: step %s, instruction %s%s at fn %s ip %s: %s differs from what NanoVMVal prescribes (prescribed %s, observed %s)" % (
            pid, x["k"], x["op"] or x["e"], x["a"] if x["op"] else "", x["fn"], x["ip"], x["what"],
            rep["prescribed"]["stack_top4"][-1:] if x["what"].startswith("stack") else rep["prescribed"]["ip"] if x["what"] == "ip" else rep["prescribed"]["kind"],
            rep["observed"]["stack_top4"][-1:] if x["what"].startswith("stack") else rep["observed"]["ip"] if x["what"] == "ip" else rep["observed"]["next_line"]))
        ctx.violation(what, ctx.save_replay("%s.step%s.json" % (pid, x["k"]), json.dumps(rep, indent=1)))
    seen = set(per_op) | set(k.split(":")[0] for k in unspec)
    return dict(programs=len(programs), programs_traced=len(usable), chunks=len(chunks), stats=dict(stats), per_opcode=dict(per_op),
                unspecified_seen=dict(unspec), unspecified_samples=unspec_samples, opcodes_never_seen=sorted(set(isa_ops) - seen),
                opcodes_specified=len(specified), opcodes_unspecified=sorted(set(isa_ops) - specified),
                reports=len(reports), wall_record_s=round(t_rec, 1), wall_tlc_s=round(t_tlc, 1), head=head,
                sample=(runs[usable[0]]["sel"][2][:300] if usable and len(runs[usable[0]]["sel"]) > 2 else ""))


def show(v):
    """human-readable rendering of a value record of the trace / of a prescribed (possibly wildcard) value"""
    if not isinstance(v, dict):
        return v
    names = {0: "void", 1: "int", 2: "u8", 3: "float", 4: "bool", 5: "string", 7: "array", 8: "struct", 9: "enum", 10: "union", 11: "function",
             12: "tuple", 13: "hashmap", 14: "opaque"}
    t = v["t"]
    if t == 99:
        return "<any value>"
    if t >= 100:
        return "<some %s>" % names.get(t - 100, t - 100)
    if t in (1, 9):
        return "%s %d" % (names[t], limbs_to_int(v["n"]))
    if t == 3:
        import struct
        return "float %r" % struct.unpack(">d", b"".join(x.to_bytes(2, "big") for x in v["n"]))[0]
    if t in (2, 4):
        return "%s %d" % (names[t], v["n"][3])
    if t == 5:
        if v["o"] != 0:
            return "string <not live %d>" % v["o"]
        if v["h"] != 0 or (not v["s"] and limbs_to_int(v["n"]) > 64):
            return "string of %d bytes (key %s)" % (limbs_to_int(v["n"]), v["h"])
        return "string %r" % bytes(v["s"]).decode(errors="replace")
    if t == 0:
        return "void"
    return "%s #%s%s" % (names.get(t, t), v["o"], "" if limbs_to_int(v["n"]) == 0 else " raw=%d" % limbs_to_int(v["n"]))


def match_known(kf, x, src):
    """a known finding matches on the instruction and the shape of the disagreement, never on the property alone:
    ops (the opcode is one of), what (component that differs / "signal"), signal, operand_tags / operand_tags_any (tags of the
    topmost operands before the instruction, bottom first), prescribed_kind, source_contains"""
    for f in kf:
        m = f.get("match", {})
        if not m:
            continue
        if m.get("ops") and x.get("op") not in m["ops"]:
            continue
        if m.get("what") and m["what"] != x.get("what"):
            continue
        if m.get("signal") and m["signal"] != x.get("signal"):
            continue
        if not m.get("signal") and x.get("signal"):
            continue
        if m.get("source_contains") and not all(t in src for t in m["source_contains"]):
            continue
        if m.get("prescribed_kind") and m["prescribed_kind"] != x["want"]["kind"]:
            continue
        if m.get("operand_tags") is not None:
            n = len(m["operand_tags"])
            if [v["t"] for v in x["pre"][-n:]] != m["operand_tags"]:
                continue
        if m.get("operand_tags_any") is not None:
            if not any([v["t"] for v in x["pre"][-len(ts):]] == ts for ts in m["operand_tags_any"]):
                continue
        return f["id"]
    return None
