"""C14 — the VM heap never frees or loses count of an object that is still referenced."""
import json, os, collections, glob
from lib.common import *
from lib.nano_ast import *
from lib.gen_prog import Gen
from lib import families
from lib.run_prog import Engines, _run

PROP = "C14"
T = families.T


def churn_family(k):
    """a loop whose values die each iteration, one program per kind of heap object"""
    out = {}
    inc = Func("inc", [("x", "int")], "int", [Ret(Bin("+", V("x"), I(1)))])
    mk = lambda body, extra=(): Program([T] + list(extra) + [Func("main", [], "int", [Let("acc", "int", I(0), True), For("i", I(0), I(k), body), Println(V("acc")), Ret(I(0))])],
                                        structs=families.STRUCTS, enums=families.ENUMS, unions=families.UNIONS)
    out["churn_string"] = mk([Let("s", "string", Bin("+", S("v"), Call("int_to_string", V("i")))), Set("acc", Bin("+", V("acc"), Call("str_length", V("s"))))])
    out["churn_array"] = mk([Let("a", "array<int>", ALit("int", [V("i"), I(2)]), True), Ex(Call("array_push", V("a"), V("i"))), Set("acc", Bin("+", V("acc"), Call("array_length", V("a"))))])
    out["churn_array_of_strings"] = mk([Let("a", "array<string>", ALit("string", [S("x"), Call("int_to_string", V("i"))])), Set("acc", Bin("+", V("acc"), Call("str_length", Call("at", V("a"), I(1)))))])
    out["churn_struct"] = mk([Let("p", "Point", SLit("Point", [("x", V("i")), ("y", I(2))])), Set("acc", Bin("+", V("acc"), Field(V("p"), "x")))])
    out["churn_union"] = mk([Let("s", "Shape", ULit("Shape.Rect", [("w", V("i")), ("h", I(2))])), Match(V("s"), [("Shape.Circle", "c", [Set("acc", I(0))]),
                             ("Shape.Rect", "q", [Set("acc", Bin("+", V("acc"), Field(V("q"), "w")))]), ("Shape.Empty", "e", [Set("acc", I(0))])])])
    out["churn_tuple"] = mk([Let("tp", "(int, string)", TLit([V("i"), Call("int_to_string", V("i"))])), Set("acc", Bin("+", V("acc"), TIdx(V("tp"), 0)))])
    out["churn_call_with_array"] = mk([Set("acc", Bin("+", V("acc"), Call("sum2", ALit("int", [V("i"), V("i")]))))],
                                      [Func("sum2", [("z", "array<int>")], "int", [Ret(Bin("+", Call("at", V("z"), I(0)), Call("at", V("z"), I(1))))])])
    out["churn_closure"] = mk([Let("g", "fn(int) -> int", V("inc")), Set("acc", Call("g", V("acc")))], [inc])
    its = lambda e: Call("int_to_string", e)
    key = lambda: Bin("+", S("k-"), its(V("i")))
    MSI, MSS = "HashMap<string, int>", "HashMap<string, string>"
    out["churn_remove_at_strings"] = mk([Let("a", "array<string>", ALit("string", [its(V("i")), Bin("+", S("m"), its(V("i"))), S("tail")]), True),
                                         Set("a", Call("array_remove_at", V("a"), I(0))), Set("acc", Bin("+", V("acc"), Call("str_length", Call("at", V("a"), I(0)))))])
    out["churn_remove_at_rows"] = mk([Let("m", "array<array<int>>", ALit("array<int>", [ALit("int", [V("i")]), ALit("int", [V("i"), I(2)]), ALit("int", [I(3)])]), True),
                                      Set("m", Call("array_remove_at", V("m"), I(1))), Set("acc", Bin("+", V("acc"), Call("array_length", Call("at", V("m"), I(1)))))])
    out["churn_slice_strings"] = mk([Let("a", "array<string>", ALit("string", [its(V("i")), S("b"), Bin("+", S("c"), its(V("i")))])),
                                     Let("b", "array<string>", Call("array_slice", V("a"), I(1), I(2))), Set("acc", Bin("+", V("acc"), Call("str_length", Call("at", V("b"), I(1)))))])
    out["churn_map_put_remove"] = mk([Let("m", MSI, Call("map_new")), Ex(Call("map_put", V("m"), key(), V("i"))), Ex(Call("map_put", V("m"), S("fixed"), V("i"))),
                                      Ex(Call("map_remove", V("m"), key())), Set("acc", Bin("+", V("acc"), Call("map_size", V("m"))))])
    out["churn_map_outer_put_remove"] = Program([T, Func("main", [], "int", [Let("acc", "int", I(0), True), Let("m", MSI, Call("map_new")),
                                                 For("i", I(0), I(k), [Ex(Call("map_put", V("m"), key(), V("i"))), Ex(Call("map_remove", V("m"), key())),
                                                                       Set("acc", Bin("+", V("acc"), Call("map_size", V("m"))))]), Println(V("acc")), Ret(I(0))])],
                                                structs=families.STRUCTS, enums=families.ENUMS, unions=families.UNIONS)
    out["churn_map_overwrite_values"] = Program([T, Func("main", [], "int", [Let("acc", "int", I(0), True), Let("m", MSS, Call("map_new")),
                                                 For("i", I(0), I(k), [Ex(Call("map_put", V("m"), S("slot"), Bin("+", S("v"), its(V("i"))))),
                                                                       Set("acc", Bin("+", V("acc"), Call("str_length", Call("map_get", V("m"), S("slot")))))]), Println(V("acc")), Ret(I(0))])],
                                                structs=families.STRUCTS, enums=families.ENUMS, unions=families.UNIONS)
    out["churn_map_get_missing_string"] = mk([Let("m", MSS, Call("map_new")), Let("s", "string", Call("map_get", V("m"), key())), Set("acc", Bin("+", V("acc"), Call("str_length", V("s"))))])
    out["churn_tuple_temp"] = mk([Set("acc", Bin("+", V("acc"), Call("str_length", TIdx(Call("pair", V("i")), 1))))],
                                 [Func("pair", [("n", "int")], "(int, string)", [Ret(TLit([V("n"), Bin("+", S("p"), its(V("n")))]))])])
    out["churn_extern_string_arg"] = mk([Set("acc", Bin("+", V("acc"), Call("bstr_utf8_length", Bin("+", S("é"), its(V("i"))))))])
    out["churn_cast_string"] = mk([Let("s", "string", Call("cast_string", V("i"))), Set("acc", Bin("+", V("acc"), Call("str_length", V("s"))))])
    out["churn_substring"] = mk([Let("s", "string", Call("str_substring", Bin("+", S("abcdef"), its(V("i"))), I(2), I(3))), Set("acc", Bin("+", V("acc"), Call("str_length", V("s"))))])
    out["churn_pop"] = mk([Let("a", "array<string>", ALit("string", [Call("int_to_string", V("i")), S("k")]), True), Let("s", "string", Call("array_pop", V("a"))),
                           Set("acc", Bin("+", V("acc"), Call("str_length", V("s"))))])
    return out


def alias_family():
    out = {}
    P = lambda body, extra=(), g=(): families.prog(body, extra, g)
    out["alias_two_locals"] = P([Let("a", "array<string>", ALit("string", [S("x"), S("y")]), True), Let("b", "array<string>", V("a")), Ex(Call("array_push", V("a"), S("z"))),
                                 Println(Call("at", V("b"), I(2))), Ex(Call("array_set", V("a"), I(0), S("w"))), Println(Call("at", V("b"), I(0)))])
    out["alias_nested_array"] = P([Let("row", "array<int>", ALit("int", [I(1), I(2)])), Let("m", "array<array<int>>", ALit("array<int>", [V("row"), V("row")])),
                                   Println(Call("at", Call("at", V("m"), I(1)), I(0))), Println(Call("array_length", V("m")))])
    out["alias_return_through_frames"] = P([Let("a", "array<string>", Call("mk2", S("q"))), Println(Call("at", V("a"), I(0))), Println(Call("array_length", V("a")))],
                                           [Func("mk", [("s", "string")], "array<string>", [Let("r", "array<string>", ALit("string", [V("s"), V("s")])), Ret(V("r"))]),
                                            Func("mk2", [("s", "string")], "array<string>", [Ret(Call("mk", Bin("+", V("s"), S("!"))))])])
    out["alias_struct_holds_string"] = P([Let("s", "string", Bin("+", S("a"), S("b"))), Let("r", "Rec2", SLit("Rec2", [("tag", V("s")), ("n", I(1))])),
                                          Let("r2", "Rec2", V("r")), Println(Field(V("r2"), "tag")), Println(V("s"))])
    out["alias_global_array"] = P([Ex(Call("array_push", V("ga"), S("p"))), Let("l", "array<string>", V("ga")), Println(Call("array_length", V("l"))), Println(Call("at", V("ga"), I(0)))],
                                  g=[("ga", "array<string>", True, ALit("string", [S("g0")]))])
    out["alias_overwrite_last_ref"] = P([Let("a", "array<string>", ALit("string", [S("one")]), True), Set("a", ALit("string", [S("two")])), Println(Call("at", V("a"), I(0))),
                                         Let("s", "string", Call("at", V("a"), I(0)), True), Set("a", ALit("string", [S("three")])), Println(V("s"))])
    out["alias_interned_strings"] = P([Let("a", "string", Bin("+", S("ab"), S("c"))), Let("b", "string", S("abc")), Println(Bin("==", V("a"), V("b"))),
                                       Let("c", "string", Bin("+", V("a"), S(""))), Println(V("c"))])
    mkrec = Func("mkrec", [("i", "int")], "Rec2", [Ret(SLit("Rec2", [("tag", Bin("+", S("rec-"), Call("int_to_string", V("i")))), ("n", V("i"))]))])
    mkarr = Func("mkarr", [("i", "int")], "array<string>", [Ret(ALit("string", [Call("int_to_string", V("i")), S("tail")]))])
    mktup = Func("mktup", [("i", "int")], "(int, string)", [Ret(TLit([V("i"), Bin("+", S("t"), Call("int_to_string", V("i")))]))])
    out["temp_struct_field"] = P([For("i", I(0), I(3), [Let("n", "string", Field(Call("mkrec", V("i")), "tag")), Let("o", "string", Call("int_to_string", Bin("+", I(7000), V("i")))),
                                                        Println(V("n")), Println(V("o"))])], [mkrec])
    out["temp_array_elem"] = P([For("i", I(0), I(3), [Let("n", "string", Call("at", Call("mkarr", V("i")), I(0))), Let("o", "string", Call("int_to_string", Bin("+", I(7000), V("i")))),
                                                      Println(V("n")), Println(V("o"))])], [mkarr])
    out["temp_tuple_elem"] = P([For("i", I(0), I(3), [Let("n", "string", TIdx(Call("mktup", V("i")), 1)), Let("o", "string", Call("int_to_string", Bin("+", I(7000), V("i")))),
                                                      Println(V("n")), Println(V("o"))])], [mktup])
    out["concat_empty_right"] = P([Let("title", "string", Bin("+", S("item-"), Call("int_to_string", I(1000))), True), Let("suffix", "string", Call("sfx", I(0))),
                                   Let("label", "string", Bin("+", V("title"), V("suffix"))), Set("title", Call("int_to_string", I(555000000))),
                                   Let("other", "string", Call("int_to_string", I(777000000))), Println(V("label")), Println(V("title")), Println(V("other"))],
                                  [Func("sfx", [("k", "int")], "string", [If(Bin("==", V("k"), I(0)), [Ret(S(""))], []), Ret(S("-x"))])])
    out["concat_empty_left"] = P([Let("acc", "string", S(""), True), For("i", I(0), I(3), [Set("acc", Bin("+", V("acc"), Call("int_to_string", V("i"))))]), Println(V("acc"))])
    for p in out.values():
        p["structs"].append({"n": "Rec2", "fields": ["tag", "n"], "ftys": ["string", "int"]})
    return out


def corpus(ctx):
    progs = {}
    k = 6 if ctx.tier == "quick" else 12
    for n, p in churn_family(k).items():
        progs[n] = (p, True)
    for n, p in alias_family().items():
        progs[n] = (p, False)
    for n, p in families.all_families().items():
        progs["fam_" + n] = (p, False)
    for i in range(25 if ctx.tier == "quick" else 300):
        progs["gen_%d_%d" % (ctx.seed, i)] = (Gen(ctx.seed * 5000011 + i).program(), False)
    for i in range(10 if ctx.tier == "quick" else 100):       # HashMap objects: entries hold references too
        progs["genmap_%d_%d" % (ctx.seed, i)] = (Gen(ctx.seed * 5000011 + 500000 + i, features={"maps": True, "fnvals": i % 2 == 1}).program(), False)
    return progs


def run(ctx):
    # 1. the ownership conventions keep the invariants in every reachable configuration of the alphabet model
    rm = tlc(ctx, "NanoVMAlpha", constants={"MaxSteps": "6" if ctx.tier == "quick" else "8"}, timeout=2400, coverage=False)
    if rm.violated:
        raise InfraError("NanoVMAlpha violates %s on the specification itself:\n%s" % (rm.violated, "\n".join(rm.trace[-3:])))
    rb = tlc(ctx, "NanoVMAlpha", constants={"Bug": '"load_no_retain"', "MaxSteps": "6"}, timeout=600)
    if not rb.violated:
        raise InfraError("vacuity: NanoVMAlpha does not notice a missing retain in LOAD_LOCAL")
    # 2. traces of the real VM
    progs = corpus(ctx)
    eng = Engines(ctx)
    fuel = "20000"

    def one(pid):
        p, churn = progs[pid]
        d = eng.write(pid, pretty(p))
        tf = os.path.join(d, "trace.ndjson")
        r = eng.vm(d, extra_env={"NANOLANG_VERIF_TRACE_VM": tf, "NANOLANG_VERIF_FUEL": fuel})
        n = 0
        if os.path.exists(tf):           # a VM that dies mid-write leaves a partial last line: keep complete events only
            good = []
            for line in open(tf, errors="replace"):
                try:
                    json.loads(line); good.append(line)
                except ValueError:
                    break
            open(tf, "w").write("".join(good)); n = len(good)
        return pid, dict(run=r, trace=tf if n else None, n=n, churn=churn)
    runs = dict(parallel_map(one, list(progs)))
    # a VM killed by a signal while running a corpus program (heap corruption detected by the allocator, SIGSEGV ...)
    for pid, r in runs.items():
        if r["run"]["sig"]:
            src = pretty(progs[pid][0]); ctx.save_replay(pid + ".nano", src)
            ctx.violation("%s: the VM was killed by signal %d while running the program (%s)" % (pid, r["run"]["sig"], r["run"]["err"].decode(errors="replace")[-120:].strip()),
                          ctx.save_replay(pid + ".crash.json", json.dumps({"program": pid, "signal": r["run"]["sig"], "stderr": r["run"]["err"].decode(errors="replace")[-800:], "source": src}, indent=1)))
    # 3. concatenate into chunks of bounded size, validate each chunk with TLC (chunks in parallel, one worker each)
    chunks, cur, cur_n = [], [], 0
    limit = 6000
    for pid, r in runs.items():
        if not r["trace"] or r["n"] > 5000:
            continue
        if cur_n + r["n"] > limit and cur:
            chunks.append(cur); cur, cur_n = [], 0
        cur.append(pid); cur_n += r["n"] + 2
    if cur:
        chunks.append(cur)

    def validate(ci):
        path = os.path.join(ctx.scratch, "vmtrace.%d.ndjson" % ci)
        with open(path, "w") as f:
            for pid in chunks[ci]:
                f.write(json.dumps({"e": "Reset", "run": pid}) + "\n")
                f.write(open(runs[pid]["trace"]).read())
                f.write(json.dumps({"e": "EndRun", "churn": runs[pid]["churn"]}) + "\n")
        r = tlc(ctx, "NanoVMTrace", workers=1, env={"TRACE": path}, timeout=1800, xss="512m", xmx="3g")
        return ci, path, r
    results = parallel_map(validate, list(range(len(chunks))), jobs=min(8, NCPU))
    stats = collections.Counter(); problems = []; samples = []
    kf = {f["id"]: f for f in findings_for(PROP)}
    for ci, path, r in results:
        st = [x for x in r.records if x.get("kind") == "stats"]
        summ = [x for x in r.records if x.get("kind") == "summary"]
        if not st or not summ or summ[-1]["consumed"] < summ[-1]["n"]:
            raise InfraError("trace chunk %d was not consumed to the end (%s)\n%s" % (ci, summ, r.out[-1500:]))
        for k2, v in st[-1]["stats"].items():
            if k2 == "maxlive": stats[k2] = max(stats[k2], v)
            else: stats[k2] += v
        for x in r.records:
            if x.get("kind") in ("rcinv", "dangling", "badfree", "churn"):
                problems.append((x, path))
            elif x.get("kind") == "deviates":
                stats["deviates:" + x["op"]] += 1
    seen_p = set()
    for x, path in problems:
        pid = x["run"]
        if (pid, x["kind"]) in seen_p:
            stats["further_" + x["kind"]] += 1       # only the first problem of a kind per run is reported
            continue
        seen_p.add((pid, x["kind"]))
        known = None
        for fid, f in kf.items():
            m = f.get("match", {})
            if x["kind"] == m.get("kind") and pid in m.get("runs", []):
                known = fid
        if known:
            ctx.known(known, "%s in run %s" % (x["kind"], pid)); stats["known:" + known] += 1
            continue
        src = pretty(progs[pid][0])
        ctx.save_replay(pid + ".nano", src)
        rep = {"program": pid, "problem": x, "source": src, "trace_chunk": path}
        ctx.violation("%s: %s at event %d (%s %s)" % (pid, {"rcinv": "reference count below the number of references", "dangling": "a reachable value points at a freed object",
                      "badfree": "an object was released twice", "churn": "live objects grow from iteration to iteration"}[x["kind"]], x["l"], x["e"], x["op"]),
                      ctx.save_replay(pid + ".json", json.dumps(rep, indent=1)))
    ran = [pid for pid, r in runs.items() if r["trace"]]
    for pid in ran[:2]:
        first = open(runs[pid]["trace"]).readline()[:300]
        samples.append({"program": pid, "events": runs[pid]["n"], "first_event": first})
    from props import gx_part
    gx_cov = gx_part.run_part(ctx, "C14")       # widened program universe: reference-count traces of generated programs
    cov = dict(generator_exploration=gx_cov, states=rm.distinct + stats["states"], transitions=rm.generated + stats["steps"], traces_validated_against_impl=sum(len(c) for c in chunks),
               samples=samples or [{"note": "none"}], evaluations=stats["states"], distinct_nontrivial=len(ran),
               trace=dict(stats), alphabet_model=dict(distinct=rm.distinct, generated=rm.generated, vacuity_bug_detected=rb.violated),
               rule="alphabet model: every configuration reachable in <= MaxSteps instructions (stack <= 5, <= 3 live objects); traces: churn, alias, family and random programs, full projected heap after every instruction")
    return "model_checking", cov, ["hook H2 maps pointers to registry ids; a pointer that is not a live registered object shows as -1 (dangling)",
                                   "step conformance with NanoVM!Do is reported (conform/deviates/unmodelled), only invariant violations are C14 violations"]


def replay(ctx, path):
    rep = json.load(open(path)); print(json.dumps(rep["problem"], indent=1)); return 0
