"""C01 — native (C-transpiled) and NanoVM backends are observationally equivalent."""
import json, os, collections
from lib.common import *
from lib.nano_ast import pretty
from lib.gen_prog import Gen
from lib import families
from lib.sem_common import *

PROP = "C01"


def corpus(ctx):
    progs = dict(("fam_" + k, v) for k, v in families.all_families().items())
    n = 60 if ctx.tier == "quick" else 600
    for k in range(n):
        progs["gen_%d_%d" % (ctx.seed, k)] = Gen(ctx.seed * 1000003 + k).program()
    for k in range(n // 3):                # generator programs that also use HashMap values
        progs["genmap_%d_%d" % (ctx.seed, k)] = Gen(ctx.seed * 1000003 + 500000 + k, features={"maps": True, "fnvals": k % 2 == 1}).program()
    return progs


def run(ctx):
    progs = corpus(ctx)
    base, r1 = prescribe(ctx, [job(pid, p) for pid, p in progs.items()])
    runs, eng = run_engines(ctx, progs)
    stats = collections.Counter()
    failing, samples, compared = [], [], 0
    seen = set()
    for pid, rr in runs.items():
        o = base[pid]
        n, v = rr["native"], rr["vm"]
        if o["status"] != "ok":
            stats["outside:" + o["status"]] += 1        # C01 quantifies over runs without faults / undefined operations
            continue
        if not n["exe"]:
            stats["native-no-exe:" + compile_class(n)] += 1   # no executable: not C01's subject (C04/C03)
            continue
        if vm_class(v):
            stats["vm-no-run:" + vm_class(v)] += 1
            continue
        compared += 1
        seen.add(sha(rr["src"]))
        on, ov, ex = observe(n["run"]), observe(v), expected(o)
        if on == ov and matches(on, ex):
            stats["agree"] += 1
            if len(samples) < 3:
                samples.append({"program": pid, "source_sha": sha(rr["src"]), "stdout": on[2].decode(errors="replace")[:200], "exit": on[1]})
            continue
        # the two backends differ, or agree with each other but not with the prescription (then C01 itself holds)
        if on == ov:
            stats["both-differ-from-spec(C02)"] += 1
            continue
        stats["backends-differ"] += 1
        for engine, ob in (("native", on), ("vm", ov)):
            if not matches(ob, ex):
                failing.append((pid, engine, ob))
    explained = attribute(ctx, PROP, progs, base, failing)
    bad = collections.defaultdict(list)
    for pid, engine, ob in failing:
        if (pid, engine) in explained:
            for fid in explained[(pid, engine)]:
                ctx.known(fid, "%s backend deviates from the prescribed behaviour, e.g. program %s" % (engine, pid))
            stats["known:" + "+".join(explained[(pid, engine)])] += 1
        else:
            bad[pid].append((engine, ob))
    for pid, lst in bad.items():
        rr = runs[pid]
        rep = {"program": pid, "source": rr["src"], "prescribed": {"stdout": render_out(base[pid]["out"]), "exit": base[pid]["exit"]},
               "observed": {e: {"kind": ob[0], "code": ob[1], "stdout": ob[2].decode(errors="replace")} for e, ob in lst}}
        path = ctx.save_replay(pid + ".json", json.dumps(rep, indent=1))
        ctx.save_replay(pid + ".nano", rr["src"])
        ctx.violation("native and VM runs of %s differ (%s)" % (pid, ", ".join(e for e, _ in lst)), path)
    cov = dict(programs=compared, disagreements_checked=len(failing), samples=samples or [{"note": "no agreeing program"}],
               evaluations=len(progs), distinct_nontrivial=len(seen), classes=dict(stats),
               rule="targeted families (families.py) + seeded typed random programs; a program counts when both backends produced a run and NanoSem's status is ok; distinct by source hash",
               states=r1.distinct, transitions=r1.generated)
    return "translation_validation", cov, [
        "NanoSem.tla (TLC) is the reference: determinism and totality of Obs are by construction of the big-step evaluator",
        "programs whose prescribed run faults or which one backend cannot build are outside C01 (they are C04/C08 subjects)"]


def replay(ctx, path):
    rep = json.load(open(path))
    from lib.run_prog import Engines
    eng = Engines(ctx)
    d = eng.write("replay", rep["source"])
    n, v = eng.native(d), eng.vm(d)
    print("native:", observe(n["run"]) if n["exe"] else compile_class(n))
    print("vm:", observe(v))
    print("prescribed:", rep["prescribed"])
    return 0
