"""C09 -- the front end is total: every input ends in acceptance or a diagnostic.

Specification: spec/FrontEnd.tla
  * Mode "cursor": the termination argument of the parser's recovery loops as a cursor machine; TLC checks
    the action properties Progress / Variant and the liveness property Terminates on every token string up
    to a bound, and shows that the deviation PREFIX_ARGS_NO_PROGRESS (finding F11) breaks Progress.
  * Mode "enum":   every token-class string up to length 4 (quick) / 5 (thorough) over 14 classes, placed by
    this module in the 7 contexts the spec lists (tables Conc / Contexts are emitted by the spec).
  * Mode "derive": derivations of the core-language grammar and their single/double mutations (-simulate).
Replay: probes/fe_probe.c runs tokenize -> parse_program -> process_imports -> type_check in process on the
ASan+UBSan build, one verdict per input; hangs are detected by the no-progress fuel of hook H6 (and by
CPU / wall / memory limits), every misbehaving input is re-run through the real `nano_virt --emit-nvm`.
Trace validation: hook H6 events of a sample of the inputs against spec/FrontEndTrace.tla.
Oracle = the property: terminates, exit in {0,1}, diagnostic when rejected, no signal, no sanitizer report;
unmutated derivations must be accepted.
"""
import json
import os
import random
import re
import resource
import struct
import subprocess
import glob
import shutil
from concurrent.futures import ThreadPoolExecutor

from lib.common import (InfraError, NCPU, REPO, VERIF, findings_for, load_findings, log, sha, sh, tlc)

PROP = "C09"
HOOK_PATCH = os.path.join(VERIF, "hooks", "h6-parser-progress.patch")
CORPUS = os.path.join(VERIF, "corpus", "fe")
FUEL = "1000"
VERDICT_NAMES = {"a": "accepted", "r": "rejected-with-diagnostic", "n": "rejected-without-diagnostic", "H": "HANG",
                 "C": "CRASH", "S": "SANITIZER", "x": "valid-derivation-rejected", "?": "unknown"}


# ------------------------------------------------------------------------------------------- builds
def build_with_hook(ctx, variant):
    """ctx.build, but make sure hook H6 is in the scratch copy (the lead applies it to /repo; until then, or
    on a tree that lacks it, the add-only patch is applied to the scratch copy -- never to /repo)."""
    tree = ctx.build(variant, targets=())                      # rsync only
    parser = os.path.join(tree, "src", "parser.c")
    hooked = "NANOLANG_VERIF_PARSE_FUEL" in open(parser).read()
    if not hooked and not getattr(ctx, "_c09_nohook", False):
        p = subprocess.run(["patch", "-p1", "--fuzz=3", "--no-backup-if-mismatch", "-s", "-i", HOOK_PATCH], cwd=tree,
                           stdout=subprocess.PIPE, stderr=subprocess.STDOUT)
        if p.returncode == 0:
            hooked = True
            log("C09: hook H6 not in the tree; applied %s to the scratch copy" % os.path.basename(HOOK_PATCH))
        else:
            log("C09: hook H6 could not be applied (%s); running without loop names" % p.stdout.decode()[:200].strip())
            sh(["rsync", "-a", REPO + "/src/parser.c", parser])
    ctx.build(variant, targets=("nano_virt",))
    return tree, hooked


# ------------------------------------------------------------------------------------------- inputs
def concretise_enum(records):
    """class strings (from TLC) x contexts (from TLC) -> source texts"""
    head = [r for r in records if "contexts" in r]
    if not head:
        raise InfraError("FrontEnd enum run did not emit its tables")
    classes, conc, contexts = head[0]["classes"], head[0]["conc"], head[0]["contexts"]
    key = {"(": "lp", ")": "rp", "{": "lb", "}": "rb", ",": "comma"}
    spell = [None if c == "EOF" else conc[key.get(c, c)] for c in classes]
    out = []
    for r in records:
        if "s" not in r:
            continue
        s = r["s"]
        cut = len(s) > 0 and classes[s[-1] - 1] == "EOF"
        body = " ".join(spell[k - 1] for k in (s[:-1] if cut else s))
        cls = " ".join(classes[k - 1] for k in s)
        for cname, tmpl in contexts.items():
            pre, post = tmpl.split("@")
            text = pre + body if cut else pre + body + post
            out.append((text.encode(), 0, ("enum", cname, cls)))       # meta as a tuple: millions of these
    return out


def meta(it):
    m = it[2]
    return m if isinstance(m, dict) else dict(fam=m[0], ctx=m[1], cls=m[2])


BYTE_TOKENS = {"<0xFF>": b"\xff", "<0xC3>": b"\xc3", "<0x01>": b"\x01", "<NUL>": b"\x00", "<0xE2><0x82>": b"\xe2\x82"}


def concretise_derivation(rec):
    parts = []
    for t in rec["toks"]:
        if t in BYTE_TOKENS:
            parts.append(BYTE_TOKENS[t])
        elif t.startswith("<NEST:"):
            opener, k = t[6:-1].rsplit(":", 1)
            parts.append((" ".join([opener] * int(k))).encode())
        else:
            parts.append(t.encode())
    text = b" ".join(parts).replace(b" \n ", b"\n").replace(b" \n", b"\n").replace(b"\n ", b"\n")
    return text


def shape_text(r):
    """concatenate a shape emitted by FrontEndShapes.tla; '#' in the repeated unit is the repetition index"""
    k = r["n"] // r.get("div", 1)
    if "#" in r["open"]:
        body = "".join(r["open"].replace("#", str(i)) for i in range(k))
    else:
        body = r["open"] * k
    return r["pre"] + body + r["core"] + r["close"] * k + r["post"]


def nesting_inputs(ctx, tier):
    """deep shapes: every recursive syntactic category of FrontEndShapes.tla at depths 10^2 .. 10^5"""
    sizes = "{100, 999, 1000, 1001, 10000, 100000}" if tier == "quick" else "{100, 999, 1000, 1001, 2000, 5000, 10000, 30000, 100000}"
    r = tlc(ctx, "FrontEndShapes", "FrontEndShapes_deep", timeout=600, constants={"Sizes": sizes})
    recs = [x for x in r.records if x.get("kind") == "deep"]
    if len(recs) < 40:
        raise InfraError("FrontEndShapes emitted only %d deep shapes" % len(recs))
    out = []
    for x in recs:
        out.append((shape_text(x).encode(), 0, dict(fam="nest", kind=x["name"], cat=x["cat"], n=x["n"])))
    return out, sorted({x["cat"] for x in recs}), sorted({x["name"] for x in recs})


def byte_inputs(tier, rnd):
    out = []
    seeds = sorted(glob.glob(os.path.join(CORPUS, "*.nano")))
    if len(seeds) < 10:
        raise InfraError("seed corpus %s is missing" % CORPUS)
    bad = [b"\xff", b"\xc3", b"\x00", b"\x01", b"\xe2\x82", b"\"", b"/*", b"'", b"\\", b"\x80\x80\x80", b"\xf0\x9f", b"\r"]
    for path in seeds:
        data = open(path, "rb").read()
        name = os.path.basename(path)
        out.append((data, 0, dict(fam="seed", file=name)))
        step = 1 if (tier == "thorough" or len(data) < 700) else 2
        for k in range(0, len(data), step):
            out.append((data[:k], 0, dict(fam="trunc", file=name, at=k)))
        npos = 40 if tier == "thorough" else 12
        for _ in range(npos):
            k = rnd.randrange(len(data) + 1)
            b = rnd.choice(bad)
            out.append((data[:k] + b + data[k:], 0, dict(fam="badbyte", file=name, at=k, byte=b.hex())))
            out.append((data[:k] + b + data[k + 1:], 0, dict(fam="badbyte-replace", file=name, at=k, byte=b.hex())))
    return out


def write_inputs(path, items):
    with open(path, "wb") as f:
        for data, expect, _ in items:
            f.write(struct.pack("<IB", len(data), expect))
            f.write(data)


# ------------------------------------------------------------------------------------------- probe runs
def run_probe(ctx, probe, items, tag, trace=None, fuel=FUEL, cpu_ms=2000):
    """Run fe_probe on items (sharded over the cores).  -> (summary, list of (index, verdict, phase, detail))"""
    if not items:
        return dict(inputs=0), []
    nshard = 1 if trace else max(1, min(NCPU, len(items) // 500))
    shards = [items[k::nshard] for k in range(nshard)]
    idx = [list(range(len(items)))[k::nshard] for k in range(nshard)]
    work = ctx.dir("probe." + tag)

    def one(k):
        d = os.path.join(work, "s%d" % k)
        os.makedirs(d, exist_ok=True)
        inp, res = os.path.join(d, "in.bin"), os.path.join(d, "res.txt")
        write_inputs(inp, shards[k])
        env = dict(os.environ)
        env.update(ctx.env({"ASAN_OPTIONS": "detect_leaks=0:abort_on_error=1:quarantine_size_mb=16:allocator_may_return_null=1",
                            "NANOLANG_VERIF_PARSE_FUEL": fuel}))
        for k2 in [x for x in env if x.startswith("NANOLANG_VERIF_TRACE")]:
            env.pop(k2)
        if trace:
            env["NANOLANG_VERIF_TRACE_PARSER"] = trace          # the parser hook has its own sink variable
        p = subprocess.run([probe, inp, res, d, str(cpu_ms), "20000", "2048"], env=env, stdout=subprocess.PIPE,
                           stderr=subprocess.PIPE, timeout=3600)
        if p.returncode != 0:
            raise InfraError("fe_probe failed (%d): %s" % (p.returncode, p.stderr.decode()[-500:]))
        summ, ev, details = None, [], {}
        for line in open(res, errors="replace"):
            if line.startswith("{"):
                summ = json.loads(line)
            elif line.startswith("#detail"):
                _, i, txt = line.rstrip("\n").split(" ", 2)
                details[int(i)] = txt
            else:
                a = line.split()
                if len(a) >= 4:
                    ev.append([int(a[0]), a[1], a[2], a[3]])
        if summ is None:
            raise InfraError("fe_probe wrote no summary")
        for e in ev:
            if e[0] in details and details[e[0]] != "-":
                e[3] = e[3] + " " + details[e[0]]
        return summ, [(idx[k][i], v, ph, det) for i, v, ph, det in ev]
    total, events = {}, []
    with ThreadPoolExecutor(max_workers=nshard) as ex:
        for summ, ev in ex.map(one, range(nshard)):
            for k2, v2 in summ.items():
                if isinstance(v2, bool):
                    total[k2] = total.get(k2, True) and v2
                else:
                    total[k2] = total.get(k2, 0) + v2
            events += ev
    events.sort()
    return total, events


class RealBinary:
    """confirmation runs through the real compiler driver"""

    def __init__(self, ctx, asan_tree, plain_tree):
        self.ctx = ctx
        self.asan = os.path.join(asan_tree, "bin", "nano_virt")
        self.plain = os.path.join(plain_tree, "bin", "nano_virt")
        self.dir = ctx.dir("confirm")
        self.n = 0

    def run(self, data, sanitize, limit_s=10, fuel=None):
        self.n += 1
        src = os.path.join(self.dir, "c%d.nano" % self.n)
        out = os.path.join(self.dir, "c%d.nvm" % self.n)
        open(src, "wb").write(data)
        env = dict(os.environ)
        env.update(self.ctx.env())
        for k2 in [x for x in env if x.startswith("NANOLANG_VERIF_")]:
            env.pop(k2)
        if fuel:
            env["NANOLANG_VERIF_PARSE_FUEL"] = fuel        # hooked build: names the loop that makes no progress

        def limits():
            if not sanitize:
                resource.setrlimit(resource.RLIMIT_AS, (3 << 30, 3 << 30))
            resource.setrlimit(resource.RLIMIT_CORE, (0, 0))
        fo, fe = os.path.join(self.dir, "c%d.out" % self.n), os.path.join(self.dir, "c%d.err" % self.n)

        def head_tail(path):
            with open(path, "rb") as f:
                b = f.read(8000)
                f.seek(0, 2)
                size = f.tell()
                if size > 16000:
                    f.seek(size - 3000)
                    b += b"\n...\n" + f.read()
            return b.decode(errors="replace")
        timed_out = False
        with open(fo, "wb") as so, open(fe, "wb") as se:
            try:
                p = subprocess.run([self.asan if sanitize else self.plain, src, "--emit-nvm", "-o", out], env=env, cwd=self.dir,
                                   stdout=so, stderr=se, timeout=limit_s, preexec_fn=limits)
            except subprocess.TimeoutExpired:
                timed_out = True
        err, o = head_tail(fe), head_tail(fo)
        for q in (fo, fe, out):
            try:
                os.unlink(q)
            except OSError:
                pass
        if timed_out:
            return dict(kind="timeout", rc=None, err=err[-400:])
        if p.returncode < 0:
            kind = "sanitizer" if ("AddressSanitizer" in err or "runtime error:" in err) else "signal"
        elif "AddressSanitizer" in err or "runtime error:" in err:
            kind = "sanitizer"
        elif p.returncode == 0:
            kind = "accepted"
        elif p.returncode == 1:
            kind = "rejected" if (err.strip() or o.strip()) else "rejected-silently"
        else:
            kind = "exit%d" % p.returncode
        return dict(kind=kind, rc=p.returncode, err=err[:8000] if kind == "sanitizer" else err[-1500:])


def san_site(err, tree):
    """(report kind, first frames that name functions of the tree, text of the source line of the first frame):
    the call site a finding is matched on (line numbers move, the line's text does not)"""
    fr = re.findall(r"#\d+ 0x[0-9a-f]+ in (\w+) (\S+?):(\d+)", err)
    fr = [f for f in fr if f[1].startswith("src/")]
    m = re.search(r"ERROR: AddressSanitizer: ([\w-]+)", err) or re.search(r"runtime error: ([^\n]{0,60})", err)
    text = ""
    if fr:
        try:
            text = open(os.path.join(tree, fr[0][1])).read().split("\n")[int(fr[0][2]) - 1].strip()
        except (OSError, IndexError):
            pass
    return (m.group(1) if m else "?"), [f[0] for f in fr[:3]], text


def match_finding(findings, kind, loop=None, site=None, meta=None):
    """the known-findings entry (status "known") that explains a misbehaviour, or None.  HANG: the H6 loop name;
    SANITIZER: report kind + innermost frame (+ caller, + text of the source line); CRASH: the input class."""
    for f in findings:
        mt = f.get("match", {})
        if mt.get("verdict") != kind:
            continue
        if kind == "HANG" and mt.get("loop") == loop:
            return f
        if kind == "SLOW" and meta and meta.get("kind") in mt.get("shapes", []):
            return f
        if kind == "CRASH" and mt.get("input_family") and meta and meta.get("fam") == mt["input_family"] and \
                (meta.get("kind") in mt.get("kinds", []) or set(meta.get("feats", [])) & set(mt.get("features", []))) and \
                meta.get("n", 0) >= mt.get("min_n", 0):
            return f
        if kind in ("SANITIZER", "CRASH") and site and mt.get("function") in site[1][:1] and \
                (not mt.get("report") or mt.get("report") == site[0]) and \
                (not mt.get("line_text") or mt.get("line_text") == site[2]) and \
                (not mt.get("caller") or mt.get("caller") in site[1]):
            return f
    return None


# ------------------------------------------------------------------------------------------- module graphs
MOD_BODY = {"a": "fn fa(x: int) -> int { return (+ x 1) }\nshadow fa { assert (== (fa 1) 2) }\nfn main() -> int { return (fa 0) }\n",
            "b": "fn fb(x: int) -> int { return (+ x 2) }\nshadow fb { assert (== (fb 1) 3) }\n",
            "c": "fn fc(x: int) -> int { return (+ x 3) }\nshadow fc { assert (== (fc 1) 4) }\n"}
MOD_SPECIAL = {"missing": "nosuch.nano", "dir": "adir.nano", "bad": "bad.nano"}


def write_module_graph(d, g):
    """files of one import graph emitted by FrontEndModules.tla"""
    os.makedirs(d, exist_ok=True)
    for f in ("a", "b", "c"):
        imps = ["import \"%s.nano\" as M%s\n" % (t, t.upper()) for t in g[f]]
        if g["sfrom"] == f:
            imps.append("import \"%s\" as SP\n" % MOD_SPECIAL[g["special"]])
        with open(os.path.join(d, f + ".nano"), "w") as fh:
            fh.write("".join(imps) + MOD_BODY[f])
    os.makedirs(os.path.join(d, "adir.nano"), exist_ok=True)
    with open(os.path.join(d, "bad.nano"), "w") as fh:
        fh.write("fn fbad( {\n")


def run_driver(ctx, cmd, cwd, limit_s=60, extra_env=None):
    env = dict(os.environ)
    env.update(ctx.env(extra_env))
    for k2 in [x for x in env if x.startswith("NANOLANG_VERIF_")]:
        env.pop(k2)
    try:
        p = subprocess.run(cmd, cwd=cwd, env=env, stdout=subprocess.PIPE, stderr=subprocess.PIPE, timeout=limit_s)
    except subprocess.TimeoutExpired:
        return dict(kind="timeout", rc=None, err="")
    err = p.stderr.decode(errors="replace")
    if "AddressSanitizer" in err or "runtime error:" in err:
        kind = "sanitizer"
    elif p.returncode < 0:
        kind = "signal"
    elif p.returncode == 0:
        kind = "accepted"
    elif p.returncode == 1:
        kind = "rejected" if (err.strip() or p.stdout.strip()) else "rejected-silently"
    else:
        kind = "exit%d" % p.returncode
    return dict(kind=kind, rc=p.returncode, err=err[:6000] if kind == "sanitizer" else err[-800:])


def stage_modules(ctx, tier, findings, asan_tree, plain_tree, violation):
    """import graphs (FrontEndModules.tla): the loader model is checked, every graph is replayed through
    nano_virt (ASan build) and nanoc (plain build, C compiler stubbed out) and compared with the prescribed verdict"""
    # quick: every graph with <= 3 import edges (self-loop, 2-cycle, 3-cycle, diamond ...) and, separately, the special
    # targets on graphs with <= 1 edge; thorough: all 512 graphs x (no special | 3 specials x 3 importing files)
    recs, mstates, mtrans = [], 0, 0
    for cfg in (("FrontEndModules_q", "FrontEndModules_qs") if tier == "quick" else ("FrontEndModules",)):
        r = tlc(ctx, "FrontEndModules", cfg, timeout=1800)
        if r.violated:
            raise InfraError("FrontEndModules/%s: %s violated without deviation:\n%s" % (cfg, r.violated, "\n".join(r.trace)[-1200:]))
        recs += r.records
        mstates += r.distinct
        mtrans += r.generated
    d = tlc(ctx, "FrontEndModules", "FrontEndModules_dev", timeout=600)
    if d.violated != "DepthBound":
        raise InfraError("IMPORT_CYCLE_UNCHECKED was expected to break DepthBound; TLC says %r" % d.violated)
    graphs, seen = [], set()
    for g in recs:
        if "expect" not in g:
            continue
        key = json.dumps(g, sort_keys=True)
        if key not in seen:
            seen.add(key)
            graphs.append(g)
    virt = os.path.join(asan_tree, "bin", "nano_virt")
    nanoc = os.path.join(plain_tree, "bin", "nanoc_c")
    base = ctx.dir("modgraphs")
    stats = dict(graphs=len(graphs), runs=0, agree=0, accepted_although_spec_rejects={}, crashes=0, states=mstates, transitions=mtrans,
                 by_expect={})
    known_hits = {}

    def one(k):
        g = graphs[k]
        gd = os.path.join(base, "g%05d" % k)
        write_module_graph(gd, g)
        a = run_driver(ctx, [virt, "a.nano", "--emit-nvm", "-o", "a.nvm"], gd,
                       extra_env={"ASAN_OPTIONS": "detect_leaks=0:abort_on_error=1:symbolize=0"})   # the report's frames are not needed here
        b = run_driver(ctx, [nanoc, "a.nano", "-o", "a.exe"], gd, extra_env={"NANO_CC": "/bin/true"})
        return k, gd, a, b
    with ThreadPoolExecutor(max_workers=NCPU) as ex:
        for k, gd, a, b in ex.map(one, range(len(graphs))):
            g = graphs[k]
            stats["runs"] += 2
            stats["by_expect"][g["expect"]] = stats["by_expect"].get(g["expect"], 0) + 1
            keep = False
            for drv, c in (("nano_virt", a), ("nanoc", b)):
                feats = (["cycle"] if g.get("cycle") else []) + ([g["special"]] if g.get("sreach") and g["special"] != "-" else [])
                m = dict(fam="modgraph", kind=g["expect"], feats=feats, graph={x: g[x] for x in ("a", "b", "c", "sfrom", "special")},
                         driver=drv, n=0)
                if c["kind"] in ("signal", "sanitizer", "timeout", "rejected-silently") or c["kind"].startswith("exit"):
                    stats["crashes"] += 1
                    f = match_finding(findings, "CRASH", meta=m)
                    if f:
                        known_hits[f["id"]] = known_hits.get(f["id"], 0) + 1
                        ctx.known(f["id"], "%s ends with %s (rc %s) on the import graph %s, prescribed: %s" % (
                            drv, c["kind"], c["rc"], json.dumps(m["graph"]), g["expect"]))
                    else:
                        keep = True
                        path = ctx.save_replay("modgraph-%s" % sha(json.dumps(m["graph"], sort_keys=True)), src=gd)
                        json.dump(dict(property=PROP, meta=m, err=c["err"]), open(os.path.join(path, "verdict.json"), "w"), indent=1)
                        violation("%s ends with %s (rc %s) on an import graph; the loader model prescribes %s" % (drv, c["kind"], c["rc"], g["expect"]),
                                  None, m, replay_path=path)
                elif g["expect"] == "accepted" and c["kind"] != "accepted":
                    keep = True
                    path = ctx.save_replay("modgraph-%s" % sha(json.dumps(m["graph"], sort_keys=True)), src=gd)
                    violation("%s rejects an acyclic import graph of well-formed modules: %s" % (drv, c["err"][-200:]), None, m, replay_path=path)
                elif g["expect"] != "accepted" and c["kind"] == "accepted":
                    # terminates, exit 0: total -- but an ill-formed module graph was accepted (a C05 matter); counted
                    w = stats["accepted_although_spec_rejects"]
                    w[g["expect"] + "/" + drv] = w.get(g["expect"] + "/" + drv, 0) + 1
                else:
                    stats["agree"] += 1
            if not keep:
                shutil.rmtree(gd, ignore_errors=True)
    stats["known"] = known_hits
    return stats


# ------------------------------------------------------------------------------------------- time against size
def source_limit_bytes(tree):
    """the documented bound on an input: read_file() of the drivers refuses larger files"""
    m = re.search(r"len\s*>\s*(\d+)\s*\*\s*(\d+)\s*\*\s*(\d+)", open(os.path.join(tree, "src", "nanovirt", "main.c")).read())
    return int(m.group(1)) * int(m.group(2)) * int(m.group(3)) if m else 10 * 1024 * 1024


def stage_scaling(ctx, tier, findings, plain_probe, plain_tree, violation):
    """wide shapes (FrontEndShapes.tla) at three sizes through the front end alone (fe_probe, plain build): CPU time
    against size, growth exponent, extrapolation to the documented source limit"""
    budget_s = 60.0
    cap_s = 40 if tier == "quick" else 150
    sizes = [1000, 4000, 16000] if tier == "quick" else [4000, 16000, 64000]
    r = tlc(ctx, "FrontEndShapes", "FrontEndShapes_wide", timeout=600, constants={"Sizes": "{" + ", ".join(map(str, sizes)) + "}"})
    recs = [x for x in r.records if x.get("kind") == "wide"]
    if len(recs) < 3 * 10:
        raise InfraError("FrontEndShapes emitted only %d wide shapes" % len(recs))
    limit = source_limit_bytes(plain_tree)
    work = ctx.dir("scaling")
    env = dict(os.environ)
    env.update(ctx.env())
    for k2 in [x for x in env if x.startswith("NANOLANG_VERIF_")]:
        env.pop(k2)

    def measure(x):
        data = shape_text(x).encode()
        d = os.path.join(work, "%s.%d" % (x["name"], x["n"]))
        os.makedirs(d, exist_ok=True)
        write_inputs(os.path.join(d, "in.bin"), [(data, 0, None)])
        cmd = [plain_probe, os.path.join(d, "in.bin"), os.path.join(d, "res.txt"), d, str(cap_s * 1000), str(cap_s * 3000), "4096"]
        p = subprocess.Popen(cmd, env=env, stdout=subprocess.DEVNULL, stderr=subprocess.DEVNULL)
        _, status, ru = os.wait4(p.pid, 0)
        p.returncode = status
        cpu = ru.ru_utime + ru.ru_stime
        verdictline = [l for l in open(os.path.join(d, "res.txt"), errors="replace") if l[:1].isdigit()] if os.path.exists(os.path.join(d, "res.txt")) else []
        v = verdictline[0].split()[1] if verdictline else "ok"
        return x, len(data), cpu, v, data
    rows = {}
    with ThreadPoolExecutor(max_workers=NCPU) as ex:
        for x, nbytes, cpu, v, data in ex.map(measure, recs):
            rows.setdefault(x["name"], []).append((x["n"], nbytes, cpu, v, data))
    import math
    table, slow = {}, []
    for name, rs in sorted(rows.items()):
        rs.sort()
        (n1, b1, t1, v1, _), (n2, b2, t2, v2, _), (n3, b3, t3, v3, d3) = rs
        timed_out = v3 == "H" or t3 >= cap_s * 0.95
        alpha = math.log(max(t3, 1e-3) / max(t2, 1e-3)) / math.log(b3 / b2) if t2 >= 0.02 else 1.0
        at_limit = t3 * (limit / b3) ** max(alpha, 1.0)
        table[name] = dict(cpu_s=[round(t1, 3), round(t2, 3), round(t3, 3)], bytes=[b1, b2, b3], exponent=round(alpha, 2),
                           extrapolated_s_at_source_limit=round(at_limit, 1), verdicts=v1 + v2 + v3)
        # flag only what is both measurable and clearly super-linear
        if timed_out or (t3 >= 0.25 and alpha >= 1.5 and at_limit > budget_s):
            slow.append((name, table[name], d3, n3))
    known_hits = {}
    for name, row, d3, n3 in slow:
        m = dict(fam="scale", kind=name, n=n3, exponent=row["exponent"], cpu_s=row["cpu_s"])
        f = match_finding(findings, "SLOW", meta=m)
        text = "front-end time grows like size^%.1f on shape '%s' (%s s CPU at %s bytes): about %.0f s at the %d-byte source limit, budget %d s" % (
            row["exponent"], name, row["cpu_s"], row["bytes"], row["extrapolated_s_at_source_limit"], limit, budget_s)
        if f:
            known_hits[f["id"]] = known_hits.get(f["id"], 0) + 1
            ctx.known(f["id"], text)
        else:
            violation(text, d3, m)
    return dict(shapes=len(rows), sizes=sizes, source_limit_bytes=limit, budget_s=budget_s, table=table,
                flagged=[x[0] for x in slow], known=known_hits)


# ------------------------------------------------------------------------------------------- main entry
def run(ctx):
    tier = ctx.tier
    rnd = random.Random(ctx.seed)
    findings = findings_for(PROP)
    asan_tree, hooked = build_with_hook(ctx, "asan")
    plain_tree = ctx.build("plain", targets=("nano_virt",), nanoc=True)
    probe = ctx.probe("fe_probe", "asan")
    plain_probe = ctx.probe("fe_probe", "plain")
    real = RealBinary(ctx, asan_tree, plain_tree)

    def frontend_dies_plain(data):
        """front end alone (no code generator) on the uninstrumented build: does the worker die from a signal?"""
        _, ev = run_probe(ctx, plain_probe, [(data, 0, None)], "plainfe%d" % real.n, fuel="", cpu_ms=60000)
        return any(e[1] == "C" for e in ev)

    # ---- model checking of the cursor machine
    model = {}
    # length <= 4 over all classes: Progress, Variant and the liveness property Terminates
    r = tlc(ctx, "FrontEnd", "FrontEnd_cursor4", timeout=3000)
    if r.violated:
        raise InfraError("FrontEnd cursor machine: %s violated with no deviation switch:\n%s" % (r.violated, "\n".join(r.trace)[-1500:]))
    model["cursor"] = dict(states=r.distinct, transitions=r.generated)
    states, trans = r.distinct, r.generated
    if tier == "thorough":
        # longer strings: the two action properties (Variant is the termination argument itself)
        for cfg in ("FrontEnd_cursor5", "FrontEnd_cursor8"):
            r = tlc(ctx, "FrontEnd", cfg, timeout=3000)
            if r.violated:
                raise InfraError("FrontEnd cursor machine (%s): %s violated" % (cfg, r.violated))
            model[cfg] = dict(states=r.distinct, transitions=r.generated)
            states += r.distinct
            trans += r.generated
    r = tlc(ctx, "FrontEnd", "FrontEnd_cursor_f11", timeout=600)
    if r.violated != "Progress":
        raise InfraError("the deviation PREFIX_ARGS_NO_PROGRESS was expected to violate Progress; TLC says %r" % r.violated)
    m = re.findall(r'toks = (<<[^>]*>>)', "\n".join(r.trace))
    model["f11_witness"] = m[-1] if m else "?"

    # ---- inputs
    items = []
    r = tlc(ctx, "FrontEnd", "FrontEnd_enum4" if (tier == "quick" and hooked) else
            "FrontEnd_enum5" if tier == "thorough" and hooked else "FrontEnd_enum3", timeout=3000)
    enum_items = concretise_enum(r.records)
    seen = set()
    for it in enum_items:
        if it[0] not in seen:
            seen.add(it[0])
            items.append(it)
    n_enum = len(items)
    nsim = (40 if tier == "quick" else 700)
    r = tlc(ctx, "FrontEnd", "FrontEnd_derive", simulate=nsim, depth=4000, timeout=3000)
    derivs = [x for x in r.records if "toks" in x]
    n_valid = n_mut = 0
    for x in derivs:
        text = concretise_derivation(x)
        if text in seen:
            continue
        seen.add(text)
        items.append((text, 1 if x["valid"] else 0, dict(fam="derive", valid=x["valid"], muts=x["muts"])))
        n_valid += 1 if x["valid"] else 0
        n_mut += 0 if x["valid"] else 1
    if n_valid < 5:
        raise InfraError("too few valid derivations (%d)" % n_valid)
    b_items = byte_inputs(tier, rnd)
    n_items, nest_cats, nest_shapes = nesting_inputs(ctx, tier)
    for it in b_items + n_items:
        if it[0] not in seen:
            seen.add(it[0])
            items.append(it)
    # the witnesses of all listed findings, fixed ones included (regression inputs), are always part of the run
    for f in [x for x in load_findings() if PROP in x.get("properties", [])]:
        w = f.get("match", {}).get("witness_input")
        if w and w.encode() not in seen:
            seen.add(w.encode())
            items.append((w.encode(), 0, dict(fam="witness", of=f["id"])))
    log("C09: %d inputs (%d class strings in context, %d valid derivations, %d mutants, %d byte-level, %d nesting)" % (
        len(items), n_enum, n_valid, n_mut, len(b_items), len(n_items)))

    # ---- replay in process
    summ, events = run_probe(ctx, probe, items, "main", cpu_ms=2000 if hooked else 300)
    log("C09: probe summary %s" % json.dumps(summ))
    if summ.get("unknown"):
        raise InfraError("fe_probe left %d inputs without a verdict" % summ["unknown"])

    # ---- judge
    viol_n = [0]

    def violation(what, data, meta, extra=None, replay_path=None):
        viol_n[0] += 1
        if viol_n[0] > 15:
            ctx.violations.append(dict(what="(counted only)", replay=""))
            return
        if replay_path:
            ctx.violation("%s; input class %s" % (what, json.dumps(meta, default=str)[:300]), replay_path)
            return
        name = "input-%s.nano" % sha(data)
        path = ctx.save_replay(name, data)
        ctx.save_replay(name + ".json", json.dumps(dict(property=PROP, what=what, meta=meta, extra=extra), indent=1, default=str))
        ctx.violation("%s; input class %s" % (what, json.dumps(meta, default=str)[:300]), path)

    groups = {}
    for i, v, phase, det in events:
        groups.setdefault((v, phase, det.split(" ")[0] if v == "H" else det), []).append(i)
    hang_groups, confirmed, known_counts = {}, 0, {}
    samples_bad = []
    for (v, phase, det), idxs in sorted(groups.items()):
        if v == "H":
            loop = det
            f = match_finding(findings, "HANG", loop=loop)
            # confirm through the real binary: a sample when the group is a known finding, everything otherwise
            sample = idxs[:3] if f else idxs[:40]
            conf = []
            for i in sample:
                # fuel verdicts name a loop that provably spins; verdicts from a resource limit get 100x more time
                c = real.run(items[i][0], sanitize=False, limit_s=60 if loop.endswith("-limit") else 8)
                conf.append(c["kind"])
                if c["kind"] in ("timeout", "signal"):
                    confirmed += 1
            bad = [k for k in conf if k in ("timeout", "signal")]
            hang_groups[loop] = dict(inputs=len(idxs), confirmed_real=len(bad), of=len(conf), sample=items[idxs[0]][0].decode(errors="replace")[-120:])
            if f and bad:
                known_counts[f["id"]] = known_counts.get(f["id"], 0) + len(idxs)
                ctx.known(f["id"], "%d inputs make the parser loop without progress in loop '%s' (e.g. %r); real binary: %s" % (
                    len(idxs), loop, meta(items[idxs[0]]), conf[0]))
            elif bad:
                for i, k in zip(sample, conf):
                    if k in ("timeout", "signal"):
                        violation("the parser does not terminate (no progress in loop '%s'; real nano_virt: %s)" % (loop, k),
                                  items[i][0], meta(items[i]))
            else:
                log("C09: %d in-process hang verdicts in '%s' not confirmed by the real binary (%s): not reported" % (len(idxs), loop, conf[:3]))
        elif v in ("C", "S"):
            for i in idxs[:25] + [j for j in idxs[25:] if isinstance(items[j][2], dict) and items[j][2].get("fam") == "nest"]:
                c = real.run(items[i][0], sanitize=True, limit_s=60)
                if c["kind"] == "sanitizer" and "stack-overflow" in c["err"][:400]:
                    # ASan frames are several times larger than the real ones: a stack overflow counts only
                    # if the uninstrumented binary dies on the same input
                    c2 = real.run(items[i][0], sanitize=False, limit_s=60)
                    if c2["kind"] != "signal" or not frontend_dies_plain(items[i][0]):
                        # (a signal of nano_virt alone may come from the code generator, which is not the front end)
                        log("C09: stack overflow under ASan only (%s; plain build: %s): not reported" % (meta(items[i]), c2["kind"]))
                        continue
                    site = san_site(c["err"], asan_tree)
                    f = match_finding(findings, "CRASH", meta=meta(items[i]))
                    if f:
                        known_counts[f["id"]] = known_counts.get(f["id"], 0) + 1
                        ctx.known(f["id"], "nano_virt dies from signal %s on %r (recursion through %s)" % (-c2["rc"], meta(items[i]), "/".join(site[1][:2])))
                    else:
                        violation("the front end overflows the C stack (signal %s; recursion through %s)" % (-c2["rc"], "/".join(site[1])),
                                  items[i][0], meta(items[i]))
                    continue
                if c["kind"] in ("sanitizer", "signal"):
                    site = san_site(c["err"], asan_tree)
                    f = match_finding(findings, "SANITIZER" if c["kind"] == "sanitizer" else "CRASH", site=site, meta=meta(items[i]))
                    if f:
                        known_counts[f["id"]] = known_counts.get(f["id"], 0) + 1
                        ctx.known(f["id"], "%s %s in %s on %r" % (c["kind"], site[0], "/".join(site[1]), meta(items[i])))
                    else:
                        violation("the front end %s (%s in %s at `%s`, phase %s)" % (
                            "trips a sanitizer" if c["kind"] == "sanitizer" else "dies from a signal", site[0], "/".join(site[1]), site[2], phase),
                            items[i][0], meta(items[i]), extra=c["err"])
                elif c["kind"] == "timeout":
                    violation("the front end does not finish within 60 s", items[i][0], meta(items[i]))
                else:
                    log("C09: in-process %s (%s) not reproduced by nano_virt (%s): not reported" % (v, det[:80], c["kind"]))
        elif v == "n":
            for i in idxs[:25]:
                c = real.run(items[i][0], sanitize=False)
                if c["kind"] == "rejected-silently":
                    violation("the input is rejected (exit %s) without any diagnostic (phase %s)" % (c["rc"], phase), items[i][0], meta(items[i]))
                else:
                    log("C09: silent rejection in process not reproduced by nano_virt (%s)" % c["kind"])
        elif v == "x":
            for i in idxs[:25]:
                c = real.run(items[i][0], sanitize=False)
                if c["kind"] != "accepted":
                    violation("a valid derivation of the grammar model is not accepted (%s, phase %s): %s" % (
                        c["kind"], phase, c["err"][-200:]), items[i][0], meta(items[i]))
        if v not in ("a", "r") and len(samples_bad) < 6:
            samples_bad.append(dict(verdict=VERDICT_NAMES.get(v, v), phase=phase, detail=det[:120], n=len(idxs), cls=meta(items[idxs[0]])))

    # every known finding's witness is re-run through the real binary first-hand (stale entries are logged)
    for f in findings:
        w = f.get("match", {}).get("witness_input")
        if w and f["id"] not in known_counts:
            c = real.run(w.encode(), sanitize=(f["match"].get("verdict") != "HANG"), limit_s=8)
            if c["kind"] in ("accepted", "rejected"):
                log("known finding %s is stale: its witness now ends with '%s'" % (f["id"], c["kind"]))

    # ---- import graphs and time against size
    mod_cov = stage_modules(ctx, tier, findings, asan_tree, plain_tree, violation)
    log("C09: import graphs %s" % json.dumps({k: v for k, v in mod_cov.items() if k != "by_expect"}))
    scale_cov = stage_scaling(ctx, tier, findings, plain_probe, plain_tree, violation)
    log("C09: scaling flagged %s" % scale_cov["flagged"])
    states += mod_cov["states"]
    trans += mod_cov["transitions"]
    for k2, v2 in list(mod_cov["known"].items()) + list(scale_cov["known"].items()):
        known_counts[k2] = known_counts.get(k2, 0) + v2

    # ---- trace validation (hook H6 -> FrontEndTrace.tla)
    trace_cov = dict(events=0, validated_inputs=0)
    if hooked:
        sample = [it for it in items if meta(it)["fam"] in ("derive", "seed", "witness")]
        enum_s = [it for it in items if not isinstance(it[2], dict)]
        sample += rnd.sample(enum_s, min(len(enum_s), 1500 if tier == "quick" else 10000))
        sample += [it for it in items if isinstance(it[2], dict) and it[2]["fam"] == "nest" and it[2]["n"] <= 1001][:40]
        budget = 120000 if tier == "quick" else 900000
        tfile = os.path.join(ctx.dir("trace"), "h6.ndjson")
        run_probe(ctx, probe, sample, "trace", trace=tfile, fuel="40")
        raw = open(tfile, errors="replace").read().splitlines() if os.path.exists(tfile) else []
        lines, torn = [], 0
        for ln in raw:          # a worker that an input killed may leave a torn last line: drop what is not an event
            try:
                if isinstance(json.loads(ln), dict):
                    lines.append(ln)
                    continue
            except ValueError:
                pass
            torn += 1
        if not lines:
            raise InfraError("hook H6 produced no events")
        if torn:
            log("C09: %d torn trace lines dropped (worker killed by its input while writing)" % torn)
        if len(lines) > budget:       # cut at a parse boundary
            k = budget
            while k > 0 and '"parse_begin"' not in lines[k]:
                k -= 1
            lines = lines[:k]
        open(tfile, "w").write("\n".join(lines) + "\n")
        switches = sorted({f["match"]["switch"] for f in findings if f.get("match", {}).get("switch")})
        dev = "{" + ", ".join('"%s"' % s for s in switches) + "}"
        verdict = None
        for attempt in (1, 2):
            r = tlc(ctx, "FrontEndTrace", "FrontEndTrace", workers=1, timeout=3000, env={"TRACE": tfile}, constants={"Dev": dev})
            s = [x for x in r.records if x.get("k") == "summary"]
            if r.violated or not s:
                raise InfraError("FrontEndTrace did not produce a summary (%s)" % r.violated)
            verdict = s[0]
            if not verdict["violations"]:
                break
        trace_cov = dict(events=verdict["events"], validated_inputs=verdict["stats"]["parses"], iterations=verdict["stats"]["iters"],
                         loops_entered=verdict["stats"]["enters"], max_depth=verdict["stats"]["maxdepth"],
                         explained_by_deviation=verdict["nknown"], rejected_events=len(verdict["violations"]))
        states += r.distinct
        trans += r.generated
        if verdict["violations"]:
            v0 = verdict["violations"][0]
            path = ctx.save_replay("trace-%s.ndjson" % sha("\n".join(lines[:2000])), "\n".join(lines) + "\n")
            ctx.violation("H6 trace rejected by FrontEndTrace: event %s: %s (loop %s)" % (v0["i"], v0["why"], v0["loop"]), path)
        if verdict["nknown"]:
            for f in findings:
                if f.get("match", {}).get("switch") in switches:
                    ctx.known(f["id"], "%d recorded parses end in a `stuck` event of loop %s (explained only with the deviation switch %s)" % (
                        verdict["nknown"], verdict["known"][0]["loop"], f["match"]["switch"]))

    fam_counts = {}
    for it in items:
        fam = it[2]["fam"] if isinstance(it[2], dict) else it[2][0]
        fam_counts[fam] = fam_counts.get(fam, 0) + 1
    cov = dict(
        evaluations=len(items),
        distinct_nontrivial=len(items) - summ.get("accepted", 0),
        rule="inputs: every token-class string up to length %s over 14 classes in 7 contexts (TLC, FrontEnd Mode enum), "
             "derivations of the grammar model and their 1-2 mutations (TLC -simulate, seed %d), every truncation and random bad-byte "
             "insertions of %d seed files, nesting families at 999/1000/1001/5000; distinct = distinct byte strings; "
             "non-trivial = not simply accepted (the front end had to diagnose, recover or give up)" % (
                 "4" if tier == "quick" else "5", ctx.seed, len(glob.glob(os.path.join(CORPUS, "*.nano")))),
        samples=[dict(text=items[i][0].decode(errors="replace")[-160:], cls=meta(items[i])) for i in
                 rnd.sample(range(len(items)), 6)] + samples_bad,
        families=fam_counts, verdicts={VERDICT_NAMES.get(k, k): v for k, v in summ.items() if k in ()},
        probe_summary=summ, hang_groups=hang_groups, hangs_confirmed_by_real_binary=confirmed,
        known_finding_inputs=known_counts, valid_derivations_accepted=n_valid - sum(1 for e in events if e[1] == "x"),
        valid_derivations=n_valid, model=model, states=states, transitions=trans,
        trace_validation=trace_cov, hooks_present=hooked, exhaustive_class_strings=True,
        module_graphs=mod_cov, time_against_size=scale_cov, nesting_categories=nest_cats, nesting_shapes=nest_shapes,
        real_binary_confirmation_runs=real.n,
    )
    assumptions = [
        "Inputs are run in process by fe_probe (same call sequence as src/nanovirt/main.c); a misbehaviour counts only if the real "
        "nano_virt --emit-nvm reproduces it (hang: no exit within 8 s / 3 GB where a normal run takes milliseconds).",
        "A hang in process is decided by hook H6's fuel (1000 consecutive iterations of one recovery loop without consuming a token), "
        "with CPU 2 s / wall 20 s / 2 GB limits as a backstop.",
        "Imports of existing modules and the code generator are outside this property; standard-library modules are not loaded.",
    ]
    return "exploration", cov, assumptions


def replay(ctx, path):
    """Re-judge one artifact against the current tree.  A misbehaviour that a known-findings entry (status "known")
    explains is printed as KNOWN-FINDING and the exit status is 0, exactly as in run()."""
    data = b"" if os.path.isdir(path) else open(path, "rb").read()
    findings = findings_for(PROP)
    asan_tree, hooked = build_with_hook(ctx, "asan")
    plain_tree = ctx.build("plain", targets=("nano_virt",))
    real = RealBinary(ctx, asan_tree, plain_tree)
    if os.path.isdir(path):
        # an import graph (stage_modules): a.nano is the root
        info = {}
        if os.path.exists(os.path.join(path, "verdict.json")):
            info = json.load(open(os.path.join(path, "verdict.json"))).get("meta") or {}
        work = os.path.join(ctx.dir("replay"), "graph")
        shutil.copytree(path, work)
        ctx.build("plain", targets=("nano_virt",), nanoc=True)
        a = run_driver(ctx, [os.path.join(asan_tree, "bin", "nano_virt"), "a.nano", "--emit-nvm", "-o", "a.nvm"], work)
        b = run_driver(ctx, [os.path.join(plain_tree, "bin", "nanoc_c"), "a.nano", "-o", "a.exe"], work, extra_env={"NANO_CC": "/bin/true"})
        print("nano_virt (asan): %s (rc %s)\nnanoc: %s (rc %s)\nprescribed by the loader model: %s\n%s" % (
            a["kind"], a["rc"], b["kind"], b["rc"], info.get("kind", "?"), (a["err"] or b["err"])[-600:]))
        bad = [c for c in (a, b) if c["kind"] not in ("accepted", "rejected")]
        if info.get("kind") == "accepted" and (a["kind"] != "accepted" or b["kind"] != "accepted"):
            bad = bad or [a]
        if not bad:
            return 0
        f = match_finding(findings, "CRASH", meta=info)
        if f:
            ctx.known(f["id"], "a front end ends with %s on this import graph" % bad[0]["kind"])
            return 0
        print("VIOLATION property=%s replay=%s" % (PROP, path))
        return 1
    if path.endswith(".ndjson"):
        switches = sorted({f["match"]["switch"] for f in findings if f.get("match", {}).get("switch")})
        dev = "{" + ", ".join('"%s"' % x for x in switches) + "}"
        r = tlc(ctx, "FrontEndTrace", "FrontEndTrace", workers=1, timeout=3000, env={"TRACE": path}, constants={"Dev": dev})
        s = [x for x in r.records if x.get("k") == "summary"]
        print(json.dumps(s[0])[:2000] if s else r.out[-2000:])
        if not s or s[0]["violations"]:
            print("VIOLATION property=%s replay=%s" % (PROP, path))
            return 1
        return 0
    info = {}
    if os.path.exists(path + ".json"):
        try:
            info = json.load(open(path + ".json")).get("meta") or {}
        except ValueError:
            pass
    a = real.run(data, sanitize=True, limit_s=60)
    b = real.run(data, sanitize=False, limit_s=8)
    print("asan build: %s (rc %s)\nplain build: %s (rc %s)\n%s" % (a["kind"], a["rc"], b["kind"], b["rc"], (a["err"] or b["err"])[-800:]))
    what, f = None, None
    if b["kind"] == "timeout" or (b["kind"] == "signal" and a["kind"] == "timeout"):
        loop = "?"
        if hooked:
            c = real.run(data, sanitize=True, limit_s=60, fuel=FUEL)
            m = re.search(r"no progress in loop '(\w+)'", c["err"])
            loop = m.group(1) if m else "?"
        what = "the parser does not terminate (no progress in loop '%s')" % loop
        f = match_finding(findings, "HANG", loop=loop)
    elif a["kind"] == "sanitizer" and "stack-overflow" in a["err"][:400]:
        if b["kind"] == "signal":
            what = "the front end overflows the C stack (signal %s)" % -b["rc"]
            f = match_finding(findings, "CRASH", meta=info)
    elif a["kind"] in ("sanitizer", "signal"):
        site = san_site(a["err"], asan_tree)
        what = "the front end %s (%s in %s at `%s`)" % ("trips a sanitizer" if a["kind"] == "sanitizer" else "dies from a signal",
                                                       site[0], "/".join(site[1]), site[2])
        f = match_finding(findings, "SANITIZER" if a["kind"] == "sanitizer" else "CRASH", site=site, meta=info)
    elif b["kind"] == "signal":
        what = "nano_virt dies from signal %s" % -b["rc"]
        f = match_finding(findings, "CRASH", meta=info)
    elif a["kind"] == "timeout":
        what = "the front end does not finish within 60 s"
        f = match_finding(findings, "SLOW", meta=info)
    elif b["kind"] == "rejected-silently":
        what = "the input is rejected without any diagnostic"
    if what is None:
        print("verdict: the front end ends with %s / %s" % (a["kind"], b["kind"]))
        return 0
    if f:
        ctx.known(f["id"], what)
        return 0
    print("verdict: %s" % what)
    print("VIOLATION property=%s replay=%s" % (PROP, path))
    return 1
