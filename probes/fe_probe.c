/*
 * fe_probe -- C09: run the front end (tokenize -> parse_program -> process_imports -> type_check) of the
 * tree under test in process on many inputs and give one verdict per input:
 *
 *   a  accepted
 *   r  rejected with at least one diagnostic (output on stdout/stderr during the rejecting phase)
 *   n  rejected WITHOUT a diagnostic
 *   H  hang: no-progress fuel of hook H6 exhausted (loop named), or CPU / wall / memory limit hit
 *   C  crash: the worker died from a signal, no sanitizer report
 *   S  sanitizer report (ASan / UBSan), worker aborted
 *
 * Same call sequence as src/nanovirt/main.c (and tests/nanovirt/test_codegen.c compile_and_run), including
 * the clean-up calls of the error paths.
 *
 * Process structure: the parent maps a shared result table and forks a worker that handles inputs
 * i, i+1, ... in one address space.  The worker publishes the index it is working on and when it started;
 * the parent watches it (worker exit, wall time since the input started, resident memory) and, when an
 * input kills or hangs the worker, records the verdict for that input and forks a new worker for i+1.
 * A pipe from the worker (never written, closed on exit) wakes the parent the moment a worker dies.
 *
 * usage: fe_probe <inputs.bin> <results.txt> <workdir> [cpu_ms [wall_ms [rss_mb]]]
 *   inputs.bin : repeated { u32 len (LE) ; u8 expect ; bytes[len] }   expect: 0 any, 1 must be accepted
 *   results    : "#detail idx text" lines (sanitizer excerpts), one JSON summary line, then one line per
 *                input "idx verdict phase detail" only for verdicts other than a/r and for unexpected
 *                rejections of inputs that must be accepted ("x")
 * env NANOLANG_VERIF_PARSE_FUEL (hook H6): consecutive no-progress iterations allowed in a recovery loop;
 * NANOLANG_VERIF_TRACE_PARSER=<file>: the hook's event sink.
 */
#ifndef _GNU_SOURCE
#define _GNU_SOURCE
#endif
#include "nanolang.h"

#include <errno.h>
#include <fcntl.h>
#include <poll.h>
#include <setjmp.h>
#include <signal.h>
#include <stdint.h>
#include <sys/mman.h>
#include <sys/resource.h>
#include <sys/stat.h>
#include <sys/time.h>
#include <sys/wait.h>
#include <time.h>
#include <unistd.h>

int g_argc = 0;
char **g_argv = NULL;

/* hook H6 (src/parser.c under NANOLANG_VERIF); weak: the probe also links against a tree without it */
extern jmp_buf *nl_verif_parse_jmp __attribute__((weak));
extern const char *nl_verif_parse_stuck_loop __attribute__((weak));

typedef struct {
    volatile int64_t cur;          /* index being processed, -1 idle */
    volatile int64_t start_ns;     /* CLOCK_MONOTONIC when cur started */
    volatile int phase;            /* 0 lex 1 parse 2 imports 3 typecheck 4 cleanup */
    volatile int64_t out_off;      /* size of the capture file when cur started */
    char loop[64];                 /* stuck loop name for verdict H from fuel */
} Shared;

static Shared *sh;
static uint8_t *verdict;           /* shared: one byte per input */
static uint8_t *vphase;            /* shared: phase of the verdict */
static char (*vloop)[24];          /* shared: loop name for H */

static uint8_t **in_data; static uint32_t *in_len; static uint8_t *in_expect; static int64_t n_in;
static long cpu_ms = 2000, wall_ms = 10000, rss_mb = 1536;
static int cap_fd = -1;
static const char *cap_path;

static int64_t now_ns(void) {
    struct timespec ts; clock_gettime(CLOCK_MONOTONIC, &ts);
    return (int64_t)ts.tv_sec * 1000000000LL + ts.tv_nsec;
}

static int64_t cap_size(void) {
    struct stat st;
    fflush(stdout); fflush(stderr);
    if (fstat(cap_fd, &st) != 0) return 0;
    return st.st_size;
}

static timer_t cpu_timer; static int have_timer = 0;

static void on_cpu_limit(int sig) {
    (void)sig;
    /* async-signal-safe: publish the verdict and leave */
    int64_t i = sh->cur;
    if (i >= 0) { verdict[i] = 'H'; vphase[i] = (uint8_t)sh->phase; memcpy(vloop[i], "cpu-limit", 10); }
    _exit(99);
}

static void arm_cpu(void) {
    if (!have_timer) return;
    struct itimerspec its; memset(&its, 0, sizeof its);
    its.it_value.tv_sec = cpu_ms / 1000; its.it_value.tv_nsec = (cpu_ms % 1000) * 1000000L;
    timer_settime(cpu_timer, 0, &its, NULL);
}

/* one input through the front end; returns verdict a/r/n/H */
static int run_one(int64_t i, const char *input_name) {
    char *source = malloc((size_t)in_len[i] + 1);
    memcpy(source, in_data[i], in_len[i]);
    source[in_len[i]] = '\0';                       /* as read_file() in src/nanovirt/main.c */
    {   /* the drivers read the program from a file, and diagnostics re-read that file for context lines */
        int sfd = open(input_name, O_CREAT | O_TRUNC | O_WRONLY, 0644);
        if (sfd >= 0) { if (write(sfd, in_data[i], in_len[i]) < 0) { /* best effort */ } close(sfd); }
    }
    int64_t off = cap_size();
    int v = 'a';

    sh->phase = 0;
    int token_count = 0;
    Token *tokens = tokenize(source, &token_count);
    if (!tokens) { v = (cap_size() > off) ? 'r' : 'n'; free(source); return v; }

    sh->phase = 1; off = cap_size();
    ASTNode *program = NULL;
    jmp_buf jb;
    if (&nl_verif_parse_jmp) {
        if (setjmp(jb) != 0) {
            /* fuel of hook H6 exhausted inside parse_program: the parser made no progress */
            nl_verif_parse_jmp = NULL;
            const char *l = nl_verif_parse_stuck_loop ? nl_verif_parse_stuck_loop : "?";
            snprintf(vloop[i], sizeof vloop[i], "%s", l);
            return 'H';                              /* the abandoned parse leaks; the worker goes on */
        }
        nl_verif_parse_jmp = &jb;
    }
    program = parse_program(tokens, token_count);
    if (&nl_verif_parse_jmp) nl_verif_parse_jmp = NULL;
    if (!program) {
        v = (cap_size() > off) ? 'r' : 'n';
        sh->phase = 4; free_tokens(tokens, token_count); free(source); sh->phase = 1; return v;
    }

    sh->phase = 2; off = cap_size();
    clear_module_cache();
    Environment *env = create_environment();
    ModuleList *modules = create_module_list();
    if (!process_imports(program, env, modules, input_name)) {
        v = (cap_size() > off) ? 'r' : 'n';
        sh->phase = 4;
        free_ast(program); free_environment(env); free_module_list(modules); clear_module_cache();
        free_tokens(tokens, token_count); free(source); sh->phase = 2; return v;
    }

    sh->phase = 3; off = cap_size();
    typecheck_set_current_file(input_name);
    bool ok = type_check(program, env);
    if (!ok) v = (cap_size() > off) ? 'r' : 'n';
    int ph = sh->phase;
    sh->phase = 4;
    free_ast(program); free_environment(env); free_module_list(modules); clear_module_cache();
    free_tokens(tokens, token_count); free(source);
    sh->phase = ph;
    return v;
}

static void worker(int64_t from, const char *workdir) {
    char name[512];
    snprintf(name, sizeof name, "%s/probe_input.nano", workdir);
    struct sigaction sa; memset(&sa, 0, sizeof sa); sa.sa_handler = on_cpu_limit;
    sigaction(SIGXCPU, &sa, NULL);
    struct sigevent sev; memset(&sev, 0, sizeof sev);
    sev.sigev_notify = SIGEV_SIGNAL; sev.sigev_signo = SIGXCPU;
    have_timer = (timer_create(CLOCK_PROCESS_CPUTIME_ID, &sev, &cpu_timer) == 0);
    for (int64_t i = from; i < n_in; i++) {
        if (cap_size() > (32 << 20)) { if (ftruncate(cap_fd, 0) != 0) { /* keep going */ } }
        sh->out_off = cap_size();
        sh->start_ns = now_ns();
        sh->cur = i;
        arm_cpu();
        int v = run_one(i, name);
        verdict[i] = (uint8_t)v; vphase[i] = (uint8_t)sh->phase;
    }
    sh->cur = -1;
    fflush(stdout); fflush(stderr);
    _exit(0);
}

static long rss_mb_of(pid_t pid) {
    char p[64]; snprintf(p, sizeof p, "/proc/%d/statm", (int)pid);
    FILE *f = fopen(p, "r"); if (!f) return 0;
    long size = 0, res = 0; if (fscanf(f, "%ld %ld", &size, &res) != 2) res = 0; fclose(f);
    return res * (sysconf(_SC_PAGESIZE) / 1024) / 1024;
}

/* does the captured output since `off` contain a sanitizer report? copies a short excerpt */
static int sanitizer_report(int64_t off, char *excerpt, size_t n) {
    excerpt[0] = 0;
    FILE *f = fopen(cap_path, "rb"); if (!f) return 0;
    fseek(f, 0, SEEK_END); long end = ftell(f);
    long from = off; if (end - from > 65536) from = end - 65536;
    fseek(f, from, SEEK_SET);
    char *buf = malloc((size_t)(end - from) + 1);
    size_t k = fread(buf, 1, (size_t)(end - from), f); buf[k] = 0; fclose(f);
    const char *pats[] = {"ERROR: AddressSanitizer", "runtime error:", "ERROR: LeakSanitizer", "AddressSanitizer:", NULL};
    int found = 0;
    for (int j = 0; pats[j] && !found; j++) {
        char *q = memmem(buf, k, pats[j], strlen(pats[j]));
        if (q) {
            found = 1;
            size_t m = 0;
            while (q[m] && q[m] != '\n' && m + 1 < n) { excerpt[m] = (q[m] == ' ' ? '_' : q[m]); m++; }
            excerpt[m] = 0;
            /* add the first frames that name our sources */
            char *fr = strstr(q, " in ");
            int frames = 0;
            while (fr && frames < 3 && strlen(excerpt) + 80 < n) {
                char *e = fr + 4; size_t l = 0; while (e[l] && e[l] != ' ' && e[l] != '\n' && l < 60) l++;
                strcat(excerpt, "|"); strncat(excerpt, e, l); frames++;
                fr = strstr(e + l, " in ");
            }
        }
    }
    free(buf);
    return found;
}

int main(int argc, char **argv) {
    if (argc < 4) { fprintf(stderr, "usage: fe_probe inputs.bin results.txt workdir [cpu_ms wall_ms rss_mb]\n"); return 2; }
    const char *workdir = argv[3];
    if (argc > 4) cpu_ms = atol(argv[4]);
    if (argc > 5) wall_ms = atol(argv[5]);
    if (argc > 6) rss_mb = atol(argv[6]);

    /* load inputs */
    FILE *f = fopen(argv[1], "rb"); if (!f) { perror(argv[1]); return 2; }
    fseek(f, 0, SEEK_END); long fsz = ftell(f); fseek(f, 0, SEEK_SET);
    uint8_t *blob = malloc((size_t)fsz + 1);
    if (fread(blob, 1, (size_t)fsz, f) != (size_t)fsz) { fprintf(stderr, "short read\n"); return 2; }
    fclose(f);
    int64_t cap = 1024; in_data = malloc(sizeof(*in_data) * cap); in_len = malloc(sizeof(*in_len) * cap); in_expect = malloc(cap);
    for (long p = 0; p + 5 <= fsz; ) {
        uint32_t len = (uint32_t)blob[p] | ((uint32_t)blob[p + 1] << 8) | ((uint32_t)blob[p + 2] << 16) | ((uint32_t)blob[p + 3] << 24);
        if (p + 5 + (long)len > fsz) { fprintf(stderr, "inputs file truncated\n"); return 2; }
        if (n_in == cap) { cap *= 2; in_data = realloc(in_data, sizeof(*in_data) * cap); in_len = realloc(in_len, sizeof(*in_len) * cap); in_expect = realloc(in_expect, cap); }
        in_len[n_in] = len; in_expect[n_in] = blob[p + 4]; in_data[n_in] = blob + p + 5; n_in++;
        p += 5 + (long)len;
    }

    sh = mmap(NULL, sizeof(Shared), PROT_READ | PROT_WRITE, MAP_SHARED | MAP_ANONYMOUS, -1, 0);
    verdict = mmap(NULL, (size_t)n_in + 1, PROT_READ | PROT_WRITE, MAP_SHARED | MAP_ANONYMOUS, -1, 0);
    vphase = mmap(NULL, (size_t)n_in + 1, PROT_READ | PROT_WRITE, MAP_SHARED | MAP_ANONYMOUS, -1, 0);
    vloop = mmap(NULL, ((size_t)n_in + 1) * 24, PROT_READ | PROT_WRITE, MAP_SHARED | MAP_ANONYMOUS, -1, 0);
    if (sh == MAP_FAILED || verdict == MAP_FAILED || vphase == MAP_FAILED || vloop == MAP_FAILED) { perror("mmap"); return 2; }
    memset(verdict, '?', (size_t)n_in);

    /* diagnostics of the code under test go to a capture file (fd 1 and 2); our own report goes to results */
    static char capbuf[600]; snprintf(capbuf, sizeof capbuf, "%s/capture.%d.txt", workdir, (int)getpid()); cap_path = capbuf;
    FILE *res = fopen(argv[2], "w"); if (!res) { perror(argv[2]); return 2; }
    cap_fd = open(cap_path, O_CREAT | O_TRUNC | O_WRONLY | O_APPEND, 0644);
    if (cap_fd < 0) { perror(cap_path); return 2; }
    int saved_err = dup(2);
    dup2(cap_fd, 1); dup2(cap_fd, 2);
    setvbuf(stdout, NULL, _IONBF, 0);
    if (chdir(workdir) != 0) { /* stay */ }

    int64_t next = 0, restarts = 0;
    int hooks = (&nl_verif_parse_jmp != NULL);
    while (next < n_in) {
        int pfd[2]; if (pipe(pfd) != 0) { dprintf(saved_err, "pipe failed\n"); return 2; }
        sh->cur = -1; sh->start_ns = now_ns();
        pid_t pid = fork();
        if (pid < 0) { dprintf(saved_err, "fork failed\n"); return 2; }
        if (pid == 0) { close(pfd[0]); worker(next, workdir); _exit(0); }
        close(pfd[1]);
        restarts++;
        int status = 0; int killed_for = 0;         /* 1 wall, 2 rss */
        for (;;) {
            struct pollfd pf = { pfd[0], POLLIN, 0 };
            int pr = poll(&pf, 1, 20);
            pid_t w = waitpid(pid, &status, WNOHANG);
            if (w == pid) break;
            (void)pr;
            int64_t cur = sh->cur;
            if (cur >= 0) {
                if ((now_ns() - sh->start_ns) / 1000000 > wall_ms) { killed_for = 1; kill(pid, SIGKILL); waitpid(pid, &status, 0); break; }
                if (rss_mb_of(pid) > rss_mb) { killed_for = 2; kill(pid, SIGKILL); waitpid(pid, &status, 0); break; }
            }
        }
        close(pfd[0]);
        int64_t cur = sh->cur;
        if (cur < 0) { if (!killed_for && WIFEXITED(status) && WEXITSTATUS(status) == 0) { next = n_in; break; }
                       /* died between inputs: cannot attribute; should not happen */
                       dprintf(saved_err, "fe_probe: worker ended abnormally outside an input (status %d)\n", status); return 2; }
        if (killed_for) {
            verdict[cur] = 'H'; vphase[cur] = (uint8_t)sh->phase;
            snprintf(vloop[cur], sizeof vloop[cur], "%s", killed_for == 1 ? "wall-limit" : "rss-limit");
        } else if (WIFEXITED(status) && WEXITSTATUS(status) == 99 && verdict[cur] == 'H') {
            /* CPU limit, recorded by the worker itself */
        } else if (WIFSIGNALED(status) || (WIFEXITED(status) && WEXITSTATUS(status) != 0)) {
            char ex[400];
            int san = sanitizer_report(sh->out_off, ex, sizeof ex);
            verdict[cur] = san ? 'S' : 'C'; vphase[cur] = (uint8_t)sh->phase;
            if (san) { /* keep the report kind in the loop field (truncated), full excerpt printed below */ }
            snprintf(vloop[cur], sizeof vloop[cur], "%s%d", WIFSIGNALED(status) ? "sig" : "exit",
                     WIFSIGNALED(status) ? WTERMSIG(status) : WEXITSTATUS(status));
            fprintf(res, "#detail %lld %s\n", (long long)cur, san ? ex : "-");
        } else {
            dprintf(saved_err, "fe_probe: unexpected worker status %d at input %lld\n", status, (long long)cur); return 2;
        }
        next = cur + 1;
    }

    int64_t cnt[256]; memset(cnt, 0, sizeof cnt);
    int64_t unexpected = 0;
    for (int64_t i = 0; i < n_in; i++) { cnt[verdict[i]]++; if (in_expect[i] == 1 && verdict[i] != 'a') unexpected++; }
    fprintf(res, "{\"inputs\":%lld,\"accepted\":%lld,\"rejected\":%lld,\"nodiag\":%lld,\"hang\":%lld,\"crash\":%lld,\"sanitizer\":%lld,"
                 "\"unknown\":%lld,\"unexpected_reject\":%lld,\"workers\":%lld,\"hooks\":%s}\n",
            (long long)n_in, (long long)cnt['a'], (long long)cnt['r'], (long long)cnt['n'], (long long)cnt['H'], (long long)cnt['C'],
            (long long)cnt['S'], (long long)cnt['?'], (long long)unexpected, (long long)restarts, hooks ? "true" : "false");
    static const char *phases[] = {"lex", "parse", "imports", "typecheck", "cleanup"};
    for (int64_t i = 0; i < n_in; i++) {
        uint8_t v = verdict[i];
        if (v == 'a' || (v == 'r' && in_expect[i] != 1)) continue;
        if (v == 'r') v = 'x';
        fprintf(res, "%lld %c %s %s\n", (long long)i, v, phases[vphase[i] > 4 ? 4 : vphase[i]], (v == 'H' || v == 'C' || v == 'S') ? vloop[i] : "-");
    }
    fclose(res);
    unlink(cap_path);
    return 0;
}
