/*
 * vm_probe: loader -> verifier -> VM on hostile modules (C13), one forked child per module.
 *
 *   vm_probe build < modules.ndjson     each line {"id":..,"strings":["main","f"],"entry":0,
 *                                        "funcs":[{"name":0,"arity":0,"nloc":2,"nup":0,"code":[["PUSH_I64",0],["JMP",-9],...]}]}
 *   vm_probe files f1.nvm f2.nvm ...     run existing files
 *
 * Output: one JSON line per module:
 *   {"id":..,"load":"ok|fail","verify":"ok|fail","vmsg":"..","exec":"ok|err|fuel|none","code":N,"msg":"..",
 *    "decode_trap":0|1,"trap_off":N,"swept":0|1,"sig":N,"nvm_hex":"..."}
 * "sig" != 0: the child was killed by a signal (sanitizer abort = 6, SEGV = 11, ...), "hang":1 : killed after the wall limit.
 */
#define _GNU_SOURCE
#include <stdio.h>
#include <stdlib.h>
#include <string.h>
#include <unistd.h>
#include <signal.h>
#include <sys/wait.h>
#include <sys/resource.h>
#include "cJSON.h"
#include "nanoisa/isa.h"
#include "nanoisa/nvm_format.h"
#include "nanoisa/verifier.h"
#include "nanovm/vm.h"

int g_argc = 0;
char **g_argv = NULL;

static uint8_t *build_module(cJSON *m, uint32_t *size) {
    NvmModule *mod = nvm_module_new();
    cJSON *strs = cJSON_GetObjectItem(m, "strings");
    for (int i = 0; i < cJSON_GetArraySize(strs); i++) {
        const char *s = cJSON_GetArrayItem(strs, i)->valuestring;
        nvm_add_string(mod, s, (uint32_t)strlen(s));
    }
    cJSON *funcs = cJSON_GetObjectItem(m, "funcs");
    for (int f = 0; f < cJSON_GetArraySize(funcs); f++) {
        cJSON *fj = cJSON_GetArrayItem(funcs, f);
        uint8_t buf[65536]; uint32_t n = 0;
        cJSON *code = cJSON_GetObjectItem(fj, "code");
        for (int k = 0; k < cJSON_GetArraySize(code); k++) {
            cJSON *ins = cJSON_GetArrayItem(code, k);
            const char *name = cJSON_GetArrayItem(ins, 0)->valuestring;
            if (strcmp(name, "RAW") == 0) {                 /* ["RAW", b0, b1, ...] raw bytes */
                for (int j = 1; j < cJSON_GetArraySize(ins); j++) buf[n++] = (uint8_t)cJSON_GetArrayItem(ins, j)->valuedouble;
                continue;
            }
            int op = isa_opcode_by_name(name);
            if (op < 0) { fprintf(stderr, "vm_probe: unknown mnemonic %s\n", name); exit(3); }
            const InstructionInfo *info = isa_get_info((uint8_t)op);
            DecodedInstruction di; memset(&di, 0, sizeof di);
            di.opcode = (uint8_t)op; di.operand_count = info->operand_count;
            for (int j = 0; j < info->operand_count; j++) {
                cJSON *a = cJSON_GetArrayItem(ins, j + 1);
                double v = a ? a->valuedouble : 0;
                switch (info->operands[j]) {
                case OPERAND_U8: di.operands[j].u8 = (uint8_t)(long long)v; break;
                case OPERAND_U16: di.operands[j].u16 = (uint16_t)(long long)v; break;
                case OPERAND_U32: di.operands[j].u32 = (uint32_t)(long long)v; break;
                case OPERAND_I32: di.operands[j].i32 = (int32_t)(long long)v; break;
                case OPERAND_I64: di.operands[j].i64 = (int64_t)v; break;
                case OPERAND_F64: di.operands[j].f64 = v; break;
                default: break;
                }
                di.operand_types[j] = info->operands[j];
            }
            n += isa_encode(&di, buf + n, sizeof buf - n);
        }
        NvmFunctionEntry fe; memset(&fe, 0, sizeof fe);
        fe.name_idx = (uint32_t)cJSON_GetObjectItem(fj, "name")->valuedouble;
        fe.arity = (uint16_t)cJSON_GetObjectItem(fj, "arity")->valuedouble;
        fe.local_count = (uint16_t)cJSON_GetObjectItem(fj, "nloc")->valuedouble;
        fe.upvalue_count = (uint16_t)cJSON_GetObjectItem(fj, "nup")->valuedouble;
        fe.code_offset = nvm_append_code(mod, buf, n);
        fe.code_length = n;
        cJSON *off = cJSON_GetObjectItem(fj, "code_offset"), *len = cJSON_GetObjectItem(fj, "code_length");
        if (off) fe.code_offset = (uint32_t)off->valuedouble;       /* hostile function-table fields */
        if (len) fe.code_length = (uint32_t)len->valuedouble;
        nvm_add_function(mod, &fe);
    }
    mod->header.flags |= NVM_FLAG_HAS_MAIN;
    mod->header.entry_point = (uint32_t)cJSON_GetObjectItem(m, "entry")->valuedouble;
    uint8_t *bytes = nvm_serialize(mod, size);
    nvm_module_free(mod);
    return bytes;
}

/* is `off` (module code offset) an instruction boundary of the linear sweep of the function containing it? */
static int swept(const NvmModule *mod, uint32_t fn, uint32_t off) {
    if (fn >= mod->function_count) return 0;
    const NvmFunctionEntry *f = &mod->functions[fn];
    uint32_t pos = f->code_offset, end = f->code_offset + f->code_length;
    while (pos < end) {
        if (pos == off) return 1;
        DecodedInstruction di;
        uint32_t n = isa_decode(mod->code + pos, end - pos, &di);
        if (n == 0) return 0;
        pos += n;
    }
    return 0;
}

static void run_child(const uint8_t *bytes, uint32_t size, int outfd) {
    FILE *out = fdopen(outfd, "w");
    NvmModule *mod = nvm_deserialize(bytes, size);
    if (!mod) { fprintf(out, "\"load\":\"fail\",\"verify\":\"none\",\"exec\":\"none\""); fflush(out); _exit(0); }
    fprintf(out, "\"load\":\"ok\","); fflush(out);
    NvmVerifyResult vr = nvm_verify(mod);
    for (char *c = vr.error_msg; *c; c++) if (*c == '"' || *c == '\\' || *c < 32) *c = ' ';
    fprintf(out, "\"verify\":\"%s\",\"vmsg\":\"%s\",", vr.ok ? "ok" : "fail", vr.error_msg); fflush(out);
    if (!vr.ok || mod->import_count > 0) { fprintf(out, "\"exec\":\"none\""); fflush(out); _exit(0); }
    static VmState vm;
    vm_init(&vm, mod);
    vm.output = fopen("/dev/null", "w");
    VmResult r = vm_execute(&vm);
    for (char *c = vm.error_msg; *c; c++) if (*c == '"' || *c == '\\' || *c < 32) *c = ' ';
    int fuel = strstr(vm.error_msg, "instruction budget exhausted") != NULL;
    int dtrap = (r == VM_ERR_DECODE || r == VM_ERR_INVALID_OPCODE);
    uint32_t toff = 0;
    if (r == VM_ERR_DECODE) sscanf(vm.error_msg, "Bad instruction at offset %u", &toff);
    fprintf(out, "\"exec\":\"%s\",\"code\":%d,\"msg\":\"%s\",\"decode_trap\":%d,\"trap_off\":%u,\"swept\":%d",
            r == VM_OK ? "ok" : fuel ? "fuel" : "err", (int)r, vm.error_msg, dtrap, toff,
            dtrap ? (r == VM_ERR_DECODE ? swept(mod, vm.current_fn, toff) : 1) : 0);
    fflush(out);
    vm_destroy(&vm);
    nvm_module_free(mod);
    _exit(0);
}

static void one(const char *id, const uint8_t *bytes, uint32_t size, int with_hex) {
    int p[2];
    if (pipe(p)) { perror("pipe"); exit(2); }
    fflush(stdout);
    pid_t pid = fork();
    if (pid == 0) {
        close(p[0]);
        struct rlimit rl = { 2ul << 30, 2ul << 30 };
        if (!getenv("VM_PROBE_NO_RLIMIT")) setrlimit(RLIMIT_AS, &rl);      /* (ASan needs a huge address space: the harness sets the variable) */
        alarm(20);
        run_child(bytes, size, p[1]);
    }
    close(p[1]);
    char buf[8192]; size_t n = 0; ssize_t k;
    while ((k = read(p[0], buf + n, sizeof buf - 1 - n)) > 0) n += (size_t)k;
    buf[n] = 0; close(p[0]);
    while (n > 0 && (buf[n - 1] == ',' || buf[n - 1] == ' ')) buf[--n] = 0;     /* the child may die between two fields */
    int st = 0; waitpid(pid, &st, 0);
    printf("{\"id\":\"%s\",%s%s\"sig\":%d,\"hang\":%d", id, buf, n ? "," : "", WIFSIGNALED(st) ? WTERMSIG(st) : 0,
           WIFSIGNALED(st) && WTERMSIG(st) == SIGALRM);
    if (with_hex) {
        printf(",\"nvm_hex\":\"");
        for (uint32_t i = 0; i < size; i++) printf("%02x", bytes[i]);
        printf("\"");
    }
    printf("}\n");
}

int main(int argc, char **argv) {
    if (argc >= 2 && strcmp(argv[1], "build") == 0) {
        char *line = NULL; size_t cap = 0;
        while (getline(&line, &cap, stdin) > 0) {
            cJSON *m = cJSON_Parse(line);
            if (!m) continue;
            uint32_t size = 0;
            uint8_t *bytes = build_module(m, &size);
            cJSON *idj = cJSON_GetObjectItem(m, "id");
            one(idj ? idj->valuestring : "?", bytes, size, argc >= 3);
            free(bytes); cJSON_Delete(m);
        }
        return 0;
    }
    if (argc >= 3 && strcmp(argv[1], "files") == 0) {
        for (int i = 2; i < argc; i++) {
            FILE *f = fopen(argv[i], "rb");
            if (!f) continue;
            fseek(f, 0, SEEK_END); long sz = ftell(f); fseek(f, 0, SEEK_SET);
            uint8_t *b = malloc((size_t)sz + 1);
            if (fread(b, 1, (size_t)sz, f) != (size_t)sz) { fclose(f); free(b); continue; }
            fclose(f);
            one(argv[i], b, (uint32_t)sz, 0);
            free(b);
        }
        return 0;
    }
    fprintf(stderr, "usage: vm_probe build [hex] < modules.ndjson | vm_probe files f.nvm...\n");
    return 2;
}
