/*
 * nvmfault_probe - drives the real .nvm loader (src/nanoisa/nvm_format.c) along the
 * fault catalogue of spec/NvmLoad.tla (property C12) and over the hostile files the
 * same spec generates (property C13, loader part).
 *
 * The catalogue (classes, burst lengths, patterns, tail kinds) is the one the TLA+
 * model prints; this program only concretises it on real files and reports what the
 * loader did.  It contains no oracle: Python compares its output with the model's
 * predictions, and the only verdict taken here is the one the property states
 * literally (a damaged file must make nvm_deserialize return NULL).
 *
 *   nvmfault_probe consts
 *   nvmfault_probe model   <image.bin> <faults.ndjson> [tracefile]
 *   nvmfault_probe exhaust <file.nvm> <seed> <quick|thorough> <maxburst> <maxtail> <outdir>
 *   nvmfault_probe sample  <file.nvm> <seed> <n-per-class> <maxburst> <maxtail> <outdir> <tracefile>
 *   nvmfault_probe hostile <cases.ndjson> <workdir> [tracefile]
 */
#include <stdio.h>
#include <stdlib.h>
#include <string.h>
#include <stdint.h>
#include <unistd.h>
#include <signal.h>
#include <sys/wait.h>
#include <fcntl.h>
#include "nanoisa/nvm_format.h"
#include "cJSON.h"

int g_argc = 0;
char **g_argv = NULL;

#define TRACE_ENV "NANOLANG_VERIF_TRACE_LOADER"

/* ------------------------------------------------------------------ helpers */
static uint8_t *read_all(const char *path, size_t *len) {
    FILE *f = fopen(path, "rb");
    if (!f) { fprintf(stderr, "cannot open %s\n", path); exit(2); }
    fseek(f, 0, SEEK_END);
    long n = ftell(f);
    fseek(f, 0, SEEK_SET);
    uint8_t *b = malloc((size_t)n + 64);
    if (n > 0 && fread(b, 1, (size_t)n, f) != (size_t)n) { fprintf(stderr, "short read %s\n", path); exit(2); }
    fclose(f);
    *len = (size_t)n;
    return b;
}

static void write_all(const char *path, const uint8_t *b, size_t n) {
    FILE *f = fopen(path, "wb");
    if (!f) { fprintf(stderr, "cannot write %s\n", path); exit(2); }
    if (n) fwrite(b, 1, n, f);
    fclose(f);
}

static uint64_t rng_state;
static uint64_t rng(void) {                 /* xorshift64* */
    rng_state ^= rng_state >> 12; rng_state ^= rng_state << 25; rng_state ^= rng_state >> 27;
    return rng_state * 2685821237ULL * 1000003ULL + 1442695040888963407ULL;
}
static void rng_seed(uint64_t s, const uint8_t *b, size_t n) {
    uint64_t h = 1469598103934665603ULL ^ s;
    for (size_t i = 0; i < n; i++) { h ^= b[i]; h *= 1099511628211ULL; }
    rng_state = h ? h : 88172645463325252ULL;
    rng(); rng();
}

/* bit k of the body: bit (k % 8), least significant first, of byte 32 + k / 8  (NvmLoad!XorBits) */
static void flip_bit(uint8_t *f, uint64_t k) { f[NVM_HEADER_SIZE + k / 8] ^= (uint8_t)(1u << (k % 8)); }

/* NvmLoad!BurstBits: first and last bit of the burst are always flipped */
static int burst_has(const char *pat, uint64_t off, unsigned len, unsigned j, uint32_t rnd) {
    if (j == 0 || j == len - 1) return 1;
    if (!strcmp(pat, "ones")) return 1;
    if (!strcmp(pat, "alt")) return (j % 2) == 0;
    if (!strcmp(pat, "ends")) return 0;
    if (!strcmp(pat, "prbs")) return ((j * j * 5 + j * 3 + off * 7 + len) % 11) < 5;
    return (rnd >> (j % 32)) & 1;          /* "rnd": seeded sample */
}
static void apply_burst(uint8_t *f, uint64_t off, unsigned len, const char *pat, uint32_t rnd) {
    for (unsigned j = 0; j < len; j++) if (burst_has(pat, off, len, j, rnd)) flip_bit(f, off + j);
}
static uint32_t burst_mask(uint64_t off, unsigned len, const char *pat, uint32_t rnd) {
    uint32_t m = 0;
    for (unsigned j = 0; j < len; j++) if (burst_has(pat, off, len, j, rnd)) m |= 1u << j;
    return m;
}

/* NvmLoad!Tails */
static size_t make_tail(uint8_t *t, unsigned n, const char *kind, unsigned first) {
    for (unsigned i = 1; i <= n; i++) {
        if (!strcmp(kind, "byte")) t[i - 1] = (uint8_t)first;
        else if (!strcmp(kind, "zeros")) t[i - 1] = 0;
        else if (!strcmp(kind, "ones")) t[i - 1] = 255;
        else if (!strcmp(kind, "prbs")) t[i - 1] = (uint8_t)((i * 37 + n * 11) % 256);
        else t[i - 1] = (uint8_t)rng();
    }
    return n;
}

/* Reverse CRC-32 (NvmLoad!ForgeLast4): 4 bytes e with crc_raw(0, e) == delta. */
static uint32_t crc_tab[256];
static void crc_tab_init(void) {
    for (uint32_t i = 0; i < 256; i++) {
        uint32_t c = i;
        for (int j = 0; j < 8; j++) c = (c & 1) ? (c >> 1) ^ 0xEDB88320u : c >> 1;
        crc_tab[i] = c;
    }
}
static unsigned tab_idx_with_top(unsigned top) {
    for (unsigned i = 0; i < 256; i++) if ((crc_tab[i] >> 24) == top) return i;
    return 0;
}
/* register before a zero data byte, given the register after it */
static uint32_t rev_zero_step(uint32_t after) {
    unsigned i = tab_idx_with_top(after >> 24);
    return ((after ^ crc_tab[i]) << 8) | i;
}
static void forge4(uint32_t delta, uint8_t e[4]) {
    unsigned idx[4];
    uint32_t r = delta;
    for (int k = 0; k < 4; k++) { idx[k] = tab_idx_with_top(r >> 24); r = (r ^ crc_tab[idx[k]]) << 8; }
    uint32_t c = 0;
    for (int k = 3; k >= 0; k--) {
        uint8_t b = (uint8_t)((c & 0xFF) ^ idx[k]);
        e[3 - k] = b;
        c = (c >> 8) ^ crc_tab[(c ^ b) & 0xFF];
    }
}

/* ---------------------------------------------------------------- tracing */
static const char *g_trace = NULL;
static void trace_on(void)  { if (g_trace) setenv(TRACE_ENV, g_trace, 1); }
static void trace_off(void) { unsetenv(TRACE_ENV); }
static void trace_reset(const char *id, const char *cls, int damaged, const uint8_t *b, size_t n) {
    if (!g_trace) return;
    FILE *f = fopen(g_trace, "a");
    if (!f) { fprintf(stderr, "cannot append %s\n", g_trace); exit(2); }
    fprintf(f, "{\"e\":\"Reset\",\"id\":\"%s\",\"cls\":\"%s\",\"damaged\":%s,\"bytes\":[", id, cls, damaged ? "true" : "false");
    for (size_t i = 0; i < n; i++) fprintf(f, i ? ",%u" : "%u", b[i]);
    fprintf(f, "]}\n");
    fclose(f);
}
static void note_current(const char *cls, const char *desc, const uint8_t *b, size_t n);
static NvmModule *traced_load(const char *id, const char *cls, int damaged, const uint8_t *b, size_t n) {
    char nd[300];
    snprintf(nd, sizeof nd, "\"%s\"", id);
    note_current(cls, nd, b, n);
    trace_reset(id, cls, damaged, b, n);
    trace_on();
    NvmModule *m = nvm_deserialize(b, (uint32_t)n);
    trace_off();
    return m;
}

/* ------------------------------------------------------------ crash capture */
/* The loader runs in this process.  If it crashes on a damaged file, that is an observation the check must
 * report (with the file), not a failure of the probe: the handler saves the buffer being loaded, prints a
 * {"k":"crash"} record and exits with status 3. */
static const uint8_t *g_cur;
static size_t g_curn;
static const char *g_curcls = "";
static char g_curdesc[320] = "null";
static char g_crashdir[3800] = ".";
static void note_current(const char *cls, const char *desc, const uint8_t *b, size_t n) {
    g_cur = b; g_curn = n; g_curcls = cls;
    snprintf(g_curdesc, sizeof g_curdesc, "%s", desc && desc[0] ? desc : "null");
}
static void crash_handler(int sig) {
    char path[4096], msg[4800];
    snprintf(path, sizeof path, "%s/crash-%d.nvm", g_crashdir, (int)getpid());
    int fd = open(path, O_WRONLY | O_CREAT | O_TRUNC, 0644);
    if (fd >= 0) { if (g_cur && g_curn) { ssize_t w = write(fd, g_cur, g_curn); (void)w; } close(fd); }
    int len = snprintf(msg, sizeof msg, "\n{\"k\":\"crash\",\"signal\":%d,\"cls\":\"%s\",\"desc\":%s,\"len\":%zu,\"path\":\"%s\"}\n",
                       sig, g_curcls, g_curdesc, g_curn, path);
    ssize_t w = write(1, msg, (size_t)len);
    (void)w;
    _exit(3);
}
static void install_crash_handler(const char *dir) {
    snprintf(g_crashdir, sizeof g_crashdir, "%s", dir);
    struct sigaction sa;
    memset(&sa, 0, sizeof sa);
    sa.sa_handler = crash_handler;
    sigaction(SIGABRT, &sa, NULL);          /* also the end of a sanitizer report (abort_on_error=1) */
    sigaction(SIGFPE, &sa, NULL);
#if !defined(__SANITIZE_ADDRESS__)
    sigaction(SIGSEGV, &sa, NULL);
    sigaction(SIGBUS, &sa, NULL);
#endif
}

static void print_module(FILE *o, const NvmModule *m) {
    fprintf(o, "{\"nsec\":%u,\"strings\":[", m->section_count);
    for (uint32_t i = 0; i < m->string_count; i++) {
        fprintf(o, i ? ",[" : "[");
        for (uint32_t j = 0; j < m->string_lengths[i]; j++) fprintf(o, j ? ",%u" : "%u", (uint8_t)m->strings[i][j]);
        fprintf(o, "]");
    }
    fprintf(o, "],\"code\":[");
    for (uint32_t i = 0; i < m->code_size; i++) fprintf(o, i ? ",%u" : "%u", m->code[i]);
    fprintf(o, "],\"fns\":[");
    for (uint32_t i = 0; i < m->function_count; i++) {
        const NvmFunctionEntry *fn = &m->functions[i];
        fprintf(o, "%s{\"name_idx\":%u,\"arity\":%u,\"code_offset\":%u,\"code_length\":%u,\"local_count\":%u,\"upvalue_count\":%u}",
                i ? "," : "", fn->name_idx, fn->arity, fn->code_offset, fn->code_length, fn->local_count, fn->upvalue_count);
    }
    fprintf(o, "],\"dbg\":%u,\"imps\":%u}", m->debug_count, m->import_count);
}

/* ------------------------------------------------------------------ consts */
static int cmd_consts(void) {
    printf("{\"HeaderSize\":%d,\"SecEntrySize\":%d,\"FnEntrySize\":%d,\"DbgEntrySize\":%d,\"ImpBaseSize\":%d,"
           "\"MaxSections\":%d,\"FormatVersion\":%d,\"Magic0\":%d,\"Magic1\":%d,\"Magic2\":%d,\"Magic3\":%d,"
           "\"SecCode\":%d,\"SecStrings\":%d,\"SecFunctions\":%d,\"SecImports\":%d,\"SecDebug\":%d,"
           "\"sizeof_sections\":%zu}\n",
           NVM_HEADER_SIZE, NVM_SECTION_ENTRY_SIZE, NVM_FUNCTION_ENTRY_SIZE, NVM_DEBUG_ENTRY_SIZE,
           NVM_IMPORT_ENTRY_BASE_SIZE, NVM_MAX_SECTIONS, NVM_FORMAT_VERSION, NVM_MAGIC_0, NVM_MAGIC_1,
           NVM_MAGIC_2, NVM_MAGIC_3, NVM_SECTION_CODE, NVM_SECTION_STRINGS, NVM_SECTION_FUNCTIONS,
           NVM_SECTION_IMPORTS, NVM_SECTION_DEBUG,
           sizeof(((NvmModule *)0)->sections) / sizeof(NvmSectionEntry));
    return 0;
}

/* ------------------------------------------------------------------- model */
/* apply one fault descriptor of the model ({cls,a,b,c}) to a copy of the file */
static uint8_t *apply_desc(const uint8_t *f, size_t n, const char *cls, long a, long b, const char *c, size_t *outn) {
    uint8_t *d = malloc(n + 64);
    memcpy(d, f, n);
    *outn = n;
    if (!strcmp(cls, "FlipBit")) flip_bit(d, (uint64_t)a);
    else if (!strcmp(cls, "Burst")) apply_burst(d, (uint64_t)a, (unsigned)b, c, 0);
    else if (!strcmp(cls, "Truncate")) *outn = (size_t)a;
    else if (!strcmp(cls, "Extend")) *outn = n + make_tail(d + n, (unsigned)a, c, (unsigned)b);
    else if (!strcmp(cls, "BadMagic") || !strcmp(cls, "BadVersion")) d[a] = (uint8_t)b;
    else if (!strcmp(cls, "CrcBit")) { uint8_t e[4]; forge4(1u << a, e); for (int i = 0; i < 4; i++) d[n - 4 + i] ^= e[i]; }
    else { fprintf(stderr, "unknown fault class %s\n", cls); exit(2); }
    return d;
}

static int cmd_model(const char *img, const char *faults, const char *trace) {
    size_t n, fl;
    uint8_t *f = read_all(img, &n);
    char *txt = (char *)read_all(faults, &fl);
    txt[fl] = 0;
    g_trace = trace;
    {
        char dir[3800];
        snprintf(dir, sizeof dir, "%s", img);
        char *sl = strrchr(dir, '/');
        if (sl) *sl = 0; else snprintf(dir, sizeof dir, ".");
        install_crash_handler(dir);
    }
    NvmModule *m = traced_load("image", "good", 0, f, n);
    printf("{\"k\":\"image\",\"loaded\":%s,\"crc\":%u", m ? "true" : "false", nvm_crc32(f + NVM_HEADER_SIZE, (uint32_t)(n - NVM_HEADER_SIZE)));
    if (m) { printf(",\"mod\":"); print_module(stdout, m); nvm_module_free(m); }
    printf("}\n");
    int idx = 0;
    for (char *line = strtok(txt, "\n"); line; line = strtok(NULL, "\n"), idx++) {
        cJSON *j = cJSON_Parse(line);
        if (!j) { fprintf(stderr, "bad json line %d\n", idx); return 2; }
        const char *cls = cJSON_GetObjectItem(j, "cls")->valuestring;
        long a = (long)cJSON_GetObjectItem(j, "a")->valuedouble, b = (long)cJSON_GetObjectItem(j, "b")->valuedouble;
        const char *c = cJSON_GetObjectItem(j, "c")->valuestring;
        size_t dn;
        uint8_t *d = apply_desc(f, n, cls, a, b, c, &dn);
        char id[64];
        snprintf(id, sizeof id, "m%d", idx);
        note_current(cls, line, d, dn);
        NvmModule *dm = (trace && (idx % 7) == 0) ? traced_load(id, cls, 1, d, dn) : nvm_deserialize(d, (uint32_t)dn);
        uint32_t crc = dn > NVM_HEADER_SIZE ? nvm_crc32(d + NVM_HEADER_SIZE, (uint32_t)(dn - NVM_HEADER_SIZE)) : 0;
        char accp[4096] = "";
        if (dm) { snprintf(accp, sizeof accp, "%s.accepted-%d.nvm", img, idx); write_all(accp, d, dn); }
        printf("{\"k\":\"fault\",\"i\":%d,\"len\":%zu,\"crc\":[%u,%u],\"loaded\":%s,\"last4\":[%u,%u,%u,%u],\"path\":\"%s\"}\n", idx, dn,
               crc >> 16, crc & 0xFFFF, dm ? "true" : "false",
               dn >= 4 ? d[dn - 4] : 0, dn >= 4 ? d[dn - 3] : 0, dn >= 4 ? d[dn - 2] : 0, dn >= 4 ? d[dn - 1] : 0, accp);
        if (dm) nvm_module_free(dm);
        free(d);
        cJSON_Delete(j);
    }
    return 0;
}

/* ----------------------------------------------------------------- exhaust */
typedef struct { const char *name; unsigned long evals, distinct, accepted; } ClassStat;
enum { C_FLIP, C_BURST, C_TRUNC, C_EXTEND, C_MAGIC, C_VERSION, C_CRCBIT, C_N };
static ClassStat g_cls[C_N] = {{"FlipBit", 0, 0, 0}, {"Burst", 0, 0, 0}, {"Truncate", 0, 0, 0}, {"Extend", 0, 0, 0},
                               {"BadMagic", 0, 0, 0}, {"BadVersion", 0, 0, 0}, {"CrcBit", 0, 0, 0}};
static const char *g_outdir;
static const char *g_base;
static unsigned g_saved;
static unsigned long g_internal_errors;

static void accepted(int cls, const uint8_t *d, size_t dn, const char *desc) {
    g_cls[cls].accepted++;
    if (g_saved < 4) {
        char p[4096];
        snprintf(p, sizeof p, "%s/accepted-%s-%u.nvm", g_outdir, g_base, g_saved++);
        write_all(p, d, dn);
        printf("{\"k\":\"accepted\",\"cls\":\"%s\",\"desc\":%s,\"path\":\"%s\"}\n", g_cls[cls].name, desc, p);
    }
}
/* the literal statement of the property for one damaged file */
static void must_refuse(int cls, const uint8_t *d, size_t dn, const char *desc) {
    g_cls[cls].evals++;
    note_current(g_cls[cls].name, desc, d, dn);
    NvmModule *m = nvm_deserialize(d, (uint32_t)dn);
    if (m) { accepted(cls, d, dn, desc); nvm_module_free(m); }
}

static const char *FIXED_PATS[4] = {"ones", "alt", "ends", "prbs"};

static int cmd_exhaust(const char *path, uint64_t seed, const char *tier, unsigned maxburst, unsigned maxtail, const char *outdir) {
    size_t n;
    uint8_t *f = read_all(path, &n);
    int thorough = !strcmp(tier, "thorough");
    g_outdir = outdir;
    install_crash_handler(outdir);
    const char *slash = strrchr(path, '/');
    g_base = slash ? slash + 1 : path;
    rng_seed(seed, f, n);
    char desc[256];
    NvmModule *gm = nvm_deserialize(f, (uint32_t)n);
    if (!gm || n <= NVM_HEADER_SIZE + 4) {
        printf("{\"k\":\"summary\",\"file\":\"%s\",\"good_loads\":false}\n", path);
        return 0;
    }
    nvm_module_free(gm);
    uint8_t *d = malloc(n + 64);
    memcpy(d, f, n);
    uint64_t bits = 8 * (uint64_t)(n - NVM_HEADER_SIZE);

    /* FlipBit: every body bit */
    for (uint64_t k = 0; k < bits; k++) {
        flip_bit(d, k);
        snprintf(desc, sizeof desc, "{\"k\":%llu}", (unsigned long long)k);
        must_refuse(C_FLIP, d, n, desc);
        flip_bit(d, k);
    }
    g_cls[C_FLIP].distinct = g_cls[C_FLIP].evals;

    /* Burst: every bit offset; thorough = every length x {4 model patterns + 1 seeded}; quick = 3 seeded (len, pattern) per offset */
    for (uint64_t off = 0; off + 2 <= bits; off++) {
        if (thorough) {
            for (unsigned len = 2; len <= maxburst && off + len <= bits; len++) {
                uint32_t seen[5]; int ns = 0;
                for (int p = 0; p < 5; p++) {
                    uint32_t rnd = (uint32_t)rng();
                    const char *pat = p < 4 ? FIXED_PATS[p] : "rnd";
                    uint32_t mask = burst_mask(off, len, pat, rnd);
                    int dup = 0;
                    for (int q = 0; q < ns; q++) if (seen[q] == mask) dup = 1;
                    if (dup) continue;
                    seen[ns++] = mask;
                    apply_burst(d, off, len, pat, rnd);
                    snprintf(desc, sizeof desc, "{\"off\":%llu,\"len\":%u,\"mask\":%u}", (unsigned long long)off, len, mask);
                    must_refuse(C_BURST, d, n, desc);
                    apply_burst(d, off, len, pat, rnd);
                    g_cls[C_BURST].distinct++;
                }
            }
        } else {
            /* whole-byte and whole-word inversions (all-ones bursts of 8, 16, 32 bits) at every bit offset: cheap, and the
             * classic blind spot of a table-driven checksum with one bad table entry */
            for (unsigned k = 0; k < 3; k++) {
                unsigned len = 8u << k;
                if (len > maxburst || off + len > bits) continue;
                uint32_t mask = burst_mask(off, len, "ones", 0);
                apply_burst(d, off, len, "ones", 0);
                snprintf(desc, sizeof desc, "{\"off\":%llu,\"len\":%u,\"mask\":%u}", (unsigned long long)off, len, mask);
                must_refuse(C_BURST, d, n, desc);
                apply_burst(d, off, len, "ones", 0);
                g_cls[C_BURST].distinct++;
            }
            uint32_t seen[3]; unsigned seenl[3]; int ns = 0;
            for (int p = 0; p < 3; p++) {
                unsigned maxl = bits - off < maxburst ? (unsigned)(bits - off) : maxburst;
                unsigned len = p == 0 ? maxl : 2 + (unsigned)(rng() % (maxl - 1));
                uint32_t rnd = (uint32_t)rng();
                const char *pat = p == 0 ? "rnd" : (p == 1 ? FIXED_PATS[rng() % 4] : "rnd");
                uint32_t mask = burst_mask(off, len, pat, rnd);
                int dup = 0;
                for (int q = 0; q < ns; q++) if (seen[q] == mask && seenl[q] == len) dup = 1;
                if (dup) continue;
                seen[ns] = mask; seenl[ns++] = len;
                apply_burst(d, off, len, pat, rnd);
                snprintf(desc, sizeof desc, "{\"off\":%llu,\"len\":%u,\"mask\":%u}", (unsigned long long)off, len, mask);
                must_refuse(C_BURST, d, n, desc);
                apply_burst(d, off, len, pat, rnd);
                g_cls[C_BURST].distinct++;
            }
        }
    }
    if (memcmp(d, f, n) != 0) g_internal_errors++;

    /* Truncate: every length 0..n-1 */
    for (size_t t = 0; t < n; t++) {
        snprintf(desc, sizeof desc, "{\"n\":%zu}", t);
        must_refuse(C_TRUNC, f, t, desc);
    }
    g_cls[C_TRUNC].distinct = g_cls[C_TRUNC].evals;

    /* Extend: every 1-byte tail; zeros / ones / prbs / seeded tails of 2..maxtail bytes */
    for (unsigned b = 0; b < 256; b++) {
        d[n] = (uint8_t)b;
        snprintf(desc, sizeof desc, "{\"tail\":[%u]}", b);
        must_refuse(C_EXTEND, d, n + 1, desc);
        g_cls[C_EXTEND].distinct++;
    }
    for (unsigned len = 2; len <= maxtail; len++) {
        const char *kinds[3] = {"zeros", "ones", "prbs"};
        for (int k = 0; k < 3 + (thorough ? 64 : 8); k++) {
            make_tail(d + n, len, k < 3 ? kinds[k] : "rnd", 0);
            snprintf(desc, sizeof desc, "{\"len\":%u,\"kind\":\"%s\",\"first\":%u}", len, k < 3 ? kinds[k] : "rnd", d[n]);
            must_refuse(C_EXTEND, d, n + len, desc);
            g_cls[C_EXTEND].distinct++;
        }
    }

    /* BadMagic / BadVersion: each of the 4 + 4 bytes set to every other value */
    for (int i = 0; i < 8; i++) {
        uint8_t keep = d[i];
        for (unsigned v = 0; v < 256; v++) {
            if (v == keep) continue;
            d[i] = (uint8_t)v;
            snprintf(desc, sizeof desc, "{\"i\":%d,\"v\":%u}", i, v);
            must_refuse(i < 4 ? C_MAGIC : C_VERSION, d, n, desc);
            g_cls[i < 4 ? C_MAGIC : C_VERSION].distinct++;
        }
        d[i] = keep;
    }

    /* CrcBit: a burst within 32 bits whose only effect on the checksum is bit j; at the end of the file
       (as in the model) and, walking the register back over the bytes that follow, at other windows */
    uint32_t good_crc = nvm_crc32(f + NVM_HEADER_SIZE, (uint32_t)(n - NVM_HEADER_SIZE));
    size_t nwin = thorough ? 64 : 8;
    for (size_t w = 0; w < nwin; w++) {
        size_t after = w == 0 ? 0 : (size_t)(rng() % (n - NVM_HEADER_SIZE - 4 + 1));   /* bytes following the window */
        for (unsigned j = 0; j < 32; j++) {
            uint32_t delta = 1u << j;
            for (size_t s = 0; s < after; s++) delta = rev_zero_step(delta);
            uint8_t e[4];
            forge4(delta, e);
            size_t p = n - after - 4;
            for (int i = 0; i < 4; i++) d[p + i] ^= e[i];
            uint32_t c = nvm_crc32(d + NVM_HEADER_SIZE, (uint32_t)(n - NVM_HEADER_SIZE));
            if (c != (good_crc ^ (1u << j))) g_internal_errors++;        /* the generator itself is checked, not trusted */
            snprintf(desc, sizeof desc, "{\"j\":%u,\"after\":%zu}", j, after);
            must_refuse(C_CRCBIT, d, n, desc);
            g_cls[C_CRCBIT].distinct++;
            for (int i = 0; i < 4; i++) d[p + i] ^= e[i];
        }
    }
    if (memcmp(d, f, n) != 0) g_internal_errors++;

    printf("{\"k\":\"summary\",\"file\":\"%s\",\"good_loads\":true,\"size\":%zu,\"body_bits\":%llu,\"internal_errors\":%lu,\"classes\":{",
           path, n, (unsigned long long)bits, g_internal_errors);
    for (int c = 0; c < C_N; c++)
        printf("%s\"%s\":{\"evaluations\":%lu,\"distinct\":%lu,\"accepted\":%lu}", c ? "," : "", g_cls[c].name,
               g_cls[c].evals, g_cls[c].distinct, g_cls[c].accepted);
    printf("}}\n");
    return 0;
}

/* ------------------------------------------------------------------ sample */
/* n damaged files of each class (seeded), written to outdir for `nano_vm` and loaded in-process with the hook on */
static int cmd_sample(const char *path, uint64_t seed, unsigned per, unsigned maxburst, unsigned maxtail,
                      const char *outdir, const char *trace) {
    size_t n;
    uint8_t *f = read_all(path, &n);
    const char *slash = strrchr(path, '/');
    const char *base = slash ? slash + 1 : path;
    rng_seed(seed ^ 0x5eedULL, f, n);
    install_crash_handler(outdir);
    g_trace = (trace && trace[0] && strcmp(trace, "-")) ? trace : NULL;
    uint64_t bits = 8 * (uint64_t)(n - NVM_HEADER_SIZE);
    char id[300], p[4096];
    snprintf(id, sizeof id, "%s:good", base);
    NvmModule *gm = traced_load(id, "good", 0, f, n);
    printf("{\"k\":\"case\",\"id\":\"%s\",\"cls\":\"good\",\"damaged\":false,\"loaded\":%s,\"path\":\"%s\"}\n", id, gm ? "true" : "false", path);
    if (gm) nvm_module_free(gm);
    const char *classes[7] = {"FlipBit", "Burst", "Truncate", "Extend", "BadMagic", "BadVersion", "CrcBit"};
    for (int c = 0; c < 7; c++) {
        for (unsigned s = 0; s < per; s++) {
            uint8_t *d = malloc(n + 64);
            size_t dn = n;
            memcpy(d, f, n);
            char desc[200];
            switch (c) {
                case 0: { uint64_t k = s == 0 ? bits - 1 : (s == 1 ? 0 : rng() % bits); flip_bit(d, k);
                          snprintf(desc, sizeof desc, "{\"k\":%llu}", (unsigned long long)k); break; }
                case 1: { unsigned len = 2 + (unsigned)(rng() % (maxburst - 1)); uint64_t off = rng() % (bits - len + 1);
                          uint32_t rnd = (uint32_t)rng(); apply_burst(d, off, len, "rnd", rnd);
                          snprintf(desc, sizeof desc, "{\"off\":%llu,\"len\":%u,\"mask\":%u}", (unsigned long long)off, len, burst_mask(off, len, "rnd", rnd)); break; }
                case 2: { dn = s == 0 ? 0 : (s == 1 ? n - 1 : (s == 2 ? NVM_HEADER_SIZE : (s == 3 ? NVM_HEADER_SIZE - 1 : rng() % n)));
                          snprintf(desc, sizeof desc, "{\"n\":%zu}", dn); break; }
                case 3: { unsigned len = 1 + (unsigned)(rng() % maxtail); make_tail(d + n, len, s == 0 ? "zeros" : "rnd", 0); dn = n + len;
                          snprintf(desc, sizeof desc, "{\"len\":%u,\"first\":%u}", len, d[n]); break; }
                case 4: { int i = (int)(rng() % 4); unsigned v; do v = (unsigned)(rng() % 256); while (v == d[i]); d[i] = (uint8_t)v;
                          snprintf(desc, sizeof desc, "{\"i\":%d,\"v\":%u}", i, v); break; }
                case 5: { int i = 4 + (int)(rng() % 4); unsigned v; do v = (unsigned)(rng() % 256); while (v == d[i]); d[i] = (uint8_t)v;
                          snprintf(desc, sizeof desc, "{\"i\":%d,\"v\":%u}", i, v); break; }
                default: { unsigned j = s == 0 ? 31 : (s == 1 ? 24 : (unsigned)(rng() % 32)); uint8_t e[4]; forge4(1u << j, e);
                          for (int i = 0; i < 4; i++) d[n - 4 + i] ^= e[i];
                          snprintf(desc, sizeof desc, "{\"j\":%u}", j); break; }
            }
            snprintf(id, sizeof id, "%s:%s:%u", base, classes[c], s);
            snprintf(p, sizeof p, "%s/%s.%s.%u.nvm", outdir, base, classes[c], s);
            write_all(p, d, dn);
            NvmModule *m = traced_load(id, classes[c], 1, d, dn);
            printf("{\"k\":\"case\",\"id\":\"%s\",\"cls\":\"%s\",\"damaged\":true,\"desc\":%s,\"loaded\":%s,\"path\":\"%s\"}\n",
                   id, classes[c], desc, m ? "true" : "false", p);
            if (m) nvm_module_free(m);
            free(d);
        }
    }
    return 0;
}

/* ----------------------------------------------------------------- hostile */
/* Each case {id, bytes[, fixcrc]} is loaded in a forked worker, so that a crash is an observation and not the end
 * of the run.  A worker goes through the cases one after the other and reports on a pipe ("B k" before, "R k v"
 * after each load); when it dies, the case it had begun is the one that crashed, its stderr holds the sanitizer
 * report, and a new worker continues behind it. */
typedef struct { char *id; uint8_t *b; size_t n; } HCase;

static void first_report(const char *errp, char *first, size_t cap) {
    first[0] = 0;
    FILE *ef = fopen(errp, "r");
    if (!ef) return;
    char l[512];
    while (fgets(l, sizeof l, ef)) {
        if (strstr(l, "ERROR:") || strstr(l, "runtime error")) {
            size_t k = 0;
            for (char *q = l; *q && *q != '\n' && k < cap - 1; q++) if (*q != '"' && *q != '\\') first[k++] = *q;
            first[k] = 0;
            break;
        }
    }
    fclose(ef);
}

static int cmd_hostile(const char *cases, const char *workdir, const char *trace) {
    size_t fl;
    char *txt = (char *)read_all(cases, &fl);
    txt[fl] = 0;
    g_trace = (trace && trace[0] && strcmp(trace, "-")) ? trace : NULL;
    size_t cap = 1024, nc = 0;
    HCase *hc = malloc(cap * sizeof *hc);
    char *save = NULL;
    for (char *line = strtok_r(txt, "\n", &save); line; line = strtok_r(NULL, "\n", &save)) {
        cJSON *j = cJSON_Parse(line);
        if (!j) { fprintf(stderr, "bad json\n"); return 2; }
        if (nc == cap) { cap *= 2; hc = realloc(hc, cap * sizeof *hc); }
        cJSON *arr = cJSON_GetObjectItem(j, "bytes");
        size_t n = (size_t)cJSON_GetArraySize(arr);
        uint8_t *b = malloc(n ? n : 1);          /* exact size: under ASan any read past the file is reported */
        size_t i = 0;
        for (cJSON *e = arr->child; e; e = e->next) b[i++] = (uint8_t)e->valuedouble;
        cJSON *fix = cJSON_GetObjectItem(j, "fixcrc");
        if (fix && cJSON_IsTrue(fix) && n >= NVM_HEADER_SIZE) {
            uint32_t c = nvm_crc32(b + NVM_HEADER_SIZE, (uint32_t)(n - NVM_HEADER_SIZE));
            b[28] = c & 0xFF; b[29] = (c >> 8) & 0xFF; b[30] = (c >> 16) & 0xFF; b[31] = (c >> 24) & 0xFF;
        }
        hc[nc].id = strdup(cJSON_GetObjectItem(j, "id")->valuestring);
        hc[nc].b = b;
        hc[nc].n = n;
        nc++;
        char path[4096];
        snprintf(path, sizeof path, "%s/%s.nvm", workdir, hc[nc - 1].id);
        write_all(path, b, n);
        cJSON_Delete(j);
    }
    size_t start = 0;
    while (start < nc) {
        int pfd[2];
        char errp[4096];
        snprintf(errp, sizeof errp, "%s/worker-%zu.stderr", workdir, start);
        if (pipe(pfd) != 0) { perror("pipe"); return 2; }
        fflush(stdout);
        pid_t pid = fork();
        if (pid == 0) {
            close(pfd[0]);
            int fd = open(errp, O_WRONLY | O_CREAT | O_TRUNC, 0644);
            if (fd >= 0) { dup2(fd, 2); close(fd); }
            for (size_t k = start; k < nc; k++) {
                char msg[64];
                int len = snprintf(msg, sizeof msg, "B %zu\n", k);
                if (write(pfd[1], msg, (size_t)len) != len) _exit(3);
                alarm(20);
                NvmModule *m = traced_load(hc[k].id, "hostile", 0, hc[k].b, hc[k].n);
                int acc = m != NULL;
                if (m) nvm_module_free(m);
                alarm(0);
                len = snprintf(msg, sizeof msg, "R %zu %d\n", k, acc);
                if (write(pfd[1], msg, (size_t)len) != len) _exit(3);
            }
            _exit(0);
        }
        close(pfd[1]);
        FILE *in = fdopen(pfd[0], "r");
        char l[128];
        long begun = -1, finished = -1;
        while (fgets(l, sizeof l, in)) {
            size_t k; int acc;
            if (sscanf(l, "B %zu", &k) == 1) begun = (long)k;
            else if (sscanf(l, "R %zu %d", &k, &acc) == 2) {
                finished = (long)k;
                printf("{\"k\":\"hostile\",\"id\":\"%s\",\"outcome\":\"%s\",\"signal\":0,\"exit\":0,\"report\":\"\",\"path\":\"%s/%s.nvm\"}\n",
                       hc[k].id, acc ? "accept" : "reject", workdir, hc[k].id);
            }
        }
        fclose(in);
        int st = 0;
        waitpid(pid, &st, 0);
        if (begun > finished) {                      /* the worker died inside case `begun` */
            int sig = WIFSIGNALED(st) ? WTERMSIG(st) : 0;
            char first[240];
            first_report(errp, first, sizeof first);
            printf("{\"k\":\"hostile\",\"id\":\"%s\",\"outcome\":\"%s\",\"signal\":%d,\"exit\":%d,\"report\":\"%s\",\"path\":\"%s/%s.nvm\"}\n",
                   hc[begun].id, sig == SIGALRM ? "timeout" : (sig ? "signal" : "exit"), sig,
                   WIFEXITED(st) ? WEXITSTATUS(st) : -1, first, workdir, hc[begun].id);
            start = (size_t)begun + 1;
        } else {
            if (!(WIFEXITED(st) && WEXITSTATUS(st) == 0)) { fprintf(stderr, "worker ended abnormally outside a case\n"); return 2; }
            start = nc;
        }
        unlink(errp);
    }
    return 0;
}

int main(int argc, char **argv) {
    g_argc = argc; g_argv = argv;
    crc_tab_init();
    setvbuf(stdout, NULL, _IOLBF, 0);      /* complete lines reach the reader even if the loader crashes */
    unsetenv(TRACE_ENV);
    if (argc >= 2 && !strcmp(argv[1], "consts")) return cmd_consts();
    if (argc >= 4 && !strcmp(argv[1], "model")) return cmd_model(argv[2], argv[3], argc > 4 ? argv[4] : NULL);
    if (argc >= 8 && !strcmp(argv[1], "exhaust"))
        return cmd_exhaust(argv[2], strtoull(argv[3], NULL, 10), argv[4], (unsigned)atoi(argv[5]), (unsigned)atoi(argv[6]), argv[7]);
    if (argc >= 9 && !strcmp(argv[1], "sample"))
        return cmd_sample(argv[2], strtoull(argv[3], NULL, 10), (unsigned)atoi(argv[4]), (unsigned)atoi(argv[5]), (unsigned)atoi(argv[6]), argv[7], argv[8]);
    if (argc >= 4 && !strcmp(argv[1], "hostile")) return cmd_hostile(argv[2], argv[3], argc > 4 ? argv[4] : NULL);
    fprintf(stderr, "usage: see the header comment of nvmfault_probe.c\n");
    return 2;
}
