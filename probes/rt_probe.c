/*
 * rt_probe -- C20: replay NativeRT.tla histories through the real native runtime
 * (src/runtime/dyn_array.c, gc.c, gc_struct.c, list_int.c, list_string.c) and compare
 * length, capacity and contents (resp. ref counts, liveness, fields) with the abstract
 * state the spec prescribes after EVERY step.
 *
 *   rt_probe <histories.ndjson> <report.ndjson> [--resume LINE KINDIDX]
 *
 * Input: one JSON object per line, {"family":"dyn|list|gc","h":[{"e":{op,i,v,res,ret,dev,..},"s":{..}},..]}
 * exactly as printed by TLC.  h[0] is the constructor step ("new": i = InitCaps code,
 * v = prefill length, kinds = element kinds with this contract).
 *
 * Output (report): "@ <line> <kind>" before each replay (so that the harness can name the
 * history that killed the process), one {"fail":..} object per mismatch, a final
 * {"summary":..} object.  Steps whose prescribed outcome is "abort" run in a forked child
 * that has to stop deliberately (SIGABRT from assert() or exit(1) with an "Error:" message)
 * without a sanitizer report; steps that carry a deviation name run in a child first.
 *
 * No oracle lives here: every expected value is read from the record.
 */
#include <stdio.h>
#include <stdlib.h>
#include <string.h>
#include <stdint.h>
#include <stdbool.h>
#include <unistd.h>
#include <signal.h>
#include <sys/wait.h>
#include <sys/types.h>
#include <setjmp.h>
#include <dlfcn.h>

#include "cJSON.h"
#include "runtime/gc.h"
#include "runtime/gc_struct.h"
#include "runtime/dyn_array.h"
#include "runtime/list_int.h"
#include "runtime/list_string.h"
#include "runtime/nl_string.h"

int g_argc = 0;
char **g_argv = NULL;

static FILE *g_rep;
static long g_line, g_replays, g_steps, g_forks, g_fails, g_devhits, g_inproc;
static const char *g_kind = "";

/* ------------------------------------------------------------------ json helpers */
static cJSON *J(const cJSON *o, const char *k) { return cJSON_GetObjectItem(o, k); }
static long JI(const cJSON *o, const char *k) { cJSON *x = J(o, k); return x ? (long)x->valuedouble : 0; }
static const char *JS(const cJSON *o, const char *k) { cJSON *x = J(o, k); return (x && x->valuestring) ? x->valuestring : ""; }

static void fail(int step, const cJSON *e, const char *what, const char *detail) {
    g_fails++;
    fprintf(g_rep, "{\"fail\":1,\"line\":%ld,\"kind\":\"%s\",\"step\":%d,\"op\":\"%s\",\"i\":%ld,\"v\":%ld,"
            "\"res\":\"%s\",\"dev\":\"%s\",\"what\":\"%s\",\"detail\":\"",
            g_line, g_kind, step, e ? JS(e, "op") : "", e ? JI(e, "i") : 0, e ? JI(e, "v") : 0,
            e ? JS(e, "res") : "", e ? JS(e, "dev") : "", what);
    for (const char *p = detail ? detail : ""; *p; p++) {
        if (*p == '"' || *p == '\\') fputc('\'', g_rep);
        else if ((unsigned char)*p < 32) fputc(' ', g_rep);
        else fputc(*p, g_rep);
    }
    fprintf(g_rep, "\"}\n");
    fflush(g_rep);
}

/* ------------------------------------------------------------------ values */
typedef struct { int64_t a; double b; char c[8]; } SVal;       /* 24 bytes */

static int64_t val_int(long v)   { return (v & 1) ? -(int64_t)(0x0123456789abcd00LL + v) : (int64_t)(0x7edcba9876543200LL + v); }
static uint8_t val_u8(long v)    { return (uint8_t)((v * 37 + 200) & 0xFF); }
static double  val_float(long v) { return (double)v * 1.25 - 0.0009765625 * (double)(v * v); }
static bool    val_bool(long v)  { return (v & 1) != 0; }
static const char *val_str(long v) {
    static char tab[64][16];
    if (v < 0 || v >= 64) return "?";
    if (!tab[v][0]) snprintf(tab[v], sizeof tab[v], "str-%ld-%c", v, (int)('a' + v % 26));
    return tab[v];
}
static SVal val_struct(long v) {
    SVal s; memset(&s, 0, sizeof s);
    s.a = val_int(v); s.b = val_float(v); snprintf(s.c, sizeof s.c, "x%ld", v);
    return s;
}
static DynArray *g_inner[64];
static DynArray *val_array(long v) {
    if (v < 0 || v >= 64) return NULL;
    if (!g_inner[v]) {
        g_inner[v] = dyn_array_new(ELEM_INT);
        for (long k = 0; k < (v % 5) + 1; k++) dyn_array_push_int(g_inner[v], val_int(v + k));
    }
    return g_inner[v];
}
static bool inner_intact(long v) {
    DynArray *a = g_inner[v];
    if (!a) return false;
    if (dyn_array_length(a) != (v % 5) + 1) return false;
    for (long k = 0; k < (v % 5) + 1; k++) if (dyn_array_get_int(a, k) != val_int(v + k)) return false;
    return true;
}

/* ------------------------------------------------------------------ in-process stop interception
 * A fork of this (sanitized, 16 MB) process costs 3-5 ms, and about 40% of all histories end
 * in an out-of-contract call.  So only every RT_PROBE_FORK_EVERY-th history (default: every
 * one) runs its out-of-contract call in a forked child that must die by SIGABRT / exit(1);
 * in the others the probe interposes the two functions through which the runtime stops the
 * program -- __assert_fail() (what assert() calls before abort()) and exit() -- and jumps
 * back.  Any memory access before the stop is still seen by ASan in this process, a call
 * that returns is reported as "continued", and the state is compared afterwards. */
static jmp_buf g_jb;
static volatile int g_catch;
static volatile char g_caught;      /* 'A' assert, 'E' exit */
static volatile int g_caught_code;

void __assert_fail(const char *assertion, const char *file, unsigned int line, const char *function) {
    if (g_catch) { g_caught = 'A'; g_catch = 0; longjmp(g_jb, 1); }
    fprintf(stderr, "%s:%u: %s: Assertion `%s' failed.\n", file, line, function ? function : "?", assertion);
    abort();
}
void exit(int code) {
    if (g_catch) { g_caught = 'E'; g_caught_code = code; g_catch = 0; longjmp(g_jb, 1); }
    void (*real_exit)(int) = (void (*)(int))dlsym(RTLD_NEXT, "exit");
    if (real_exit) real_exit(code);
    _exit(code);
}
static long g_fork_every = 1;

/* ------------------------------------------------------------------ child runs */
/* Runs fn(arg) in a child.  Returns a malloc'd description:
 *   kind 'A' = died by SIGABRT, 'E' = exit(code), 'S' = other signal; text = its stderr. */
typedef struct { char how; int code; char text[2048]; } ChildResult;
typedef int (*child_fn)(void *);

static ChildResult run_child(child_fn fn, void *arg) {
    ChildResult r; memset(&r, 0, sizeof r);
    int pfd[2];
    if (pipe(pfd) != 0) { r.how = '?'; return r; }
    fflush(NULL);
    g_forks++;
    pid_t pid = fork();
    if (pid < 0) { r.how = '?'; close(pfd[0]); close(pfd[1]); return r; }
    if (pid == 0) {
        close(pfd[0]);
        dup2(pfd[1], 2);
        close(pfd[1]);
        int rc = fn(arg);
        fflush(stderr);
        _exit(rc);
    }
    close(pfd[1]);
    size_t n = 0; ssize_t k;
    char buf[512];
    while ((k = read(pfd[0], buf, sizeof buf)) > 0) {
        size_t room = sizeof r.text - 1 - n;
        size_t take = (size_t)k < room ? (size_t)k : room;
        memcpy(r.text + n, buf, take); n += take;
    }
    close(pfd[0]);
    r.text[n] = 0;
    int st = 0;
    waitpid(pid, &st, 0);
    if (WIFSIGNALED(st)) { r.how = (WTERMSIG(st) == SIGABRT) ? 'A' : 'S'; r.code = WTERMSIG(st); }
    else { r.how = 'E'; r.code = WEXITSTATUS(st); }
    return r;
}

static bool has_sanitizer_report(const char *t) {
    return strstr(t, "Sanitizer") || strstr(t, "runtime error:") || strstr(t, "SUMMARY:");
}

/* prescribed "abort": the call must stop the process deliberately, touching no memory */
#define CHILD_RETURNED 42
static bool deliberate_stop(const ChildResult *r, char *why, size_t n) {
    if (has_sanitizer_report(r->text)) { snprintf(why, n, "sanitizer report in out-of-contract call: %.900s", r->text); return false; }
    if (r->how == 'A' && strstr(r->text, "ssert")) return true;                 /* assert() */
    if (r->how == 'E' && r->code == 1 && strstr(r->text, "Error:")) return true;    /* list_*: message + exit(1) */
    if (r->how == 'E' && r->code == CHILD_RETURNED) { snprintf(why, n, "out-of-contract call returned and the program continued"); return false; }
    snprintf(why, n, "out-of-contract call ended with %s %d: %.900s", r->how == 'E' ? "exit" : "signal", r->code, r->text);
    return false;
}

/* ------------------------------------------------------------------ containers */
typedef struct {
    const char *kind;     /* current element kind (push_struct may promote) */
    bool is_list;
    DynArray *a, *o;      /* focus / other */
    List_int *li;
    List_string *ls;
} CState;

static ElementType elem_of(const char *k) {
    if (!strcmp(k, "int")) return ELEM_INT;
    if (!strcmp(k, "u8")) return ELEM_U8;
    if (!strcmp(k, "float")) return ELEM_FLOAT;
    if (!strcmp(k, "bool")) return ELEM_BOOL;
    if (!strcmp(k, "string")) return ELEM_STRING;
    if (!strcmp(k, "array")) return ELEM_ARRAY;
    return ELEM_STRUCT;
}

static void c_push(CState *c, long v) {
    if (c->li) { list_int_push(c->li, val_int(v)); return; }
    if (c->ls) { list_string_push(c->ls, val_str(v)); return; }
    switch (elem_of(c->kind)) {
        case ELEM_INT: dyn_array_push_int(c->a, val_int(v)); break;
        case ELEM_U8: dyn_array_push_u8(c->a, val_u8(v)); break;
        case ELEM_FLOAT: dyn_array_push_float(c->a, val_float(v)); break;
        case ELEM_BOOL: dyn_array_push_bool(c->a, val_bool(v)); break;
        case ELEM_STRING:
            if (v & 1) dyn_array_push_string(c->a, val_str(v)); else dyn_array_push_string_copy(c->a, val_str(v));
            break;
        case ELEM_ARRAY: dyn_array_push_array(c->a, val_array(v)); break;
        default: { SVal s = val_struct(v); dyn_array_push_struct(c->a, &s, sizeof s); } break;
    }
}

/* element j of array `a` of kind k equals the image of abstract value v? */
static bool elem_eq(DynArray *a, const char *k, long j, long v) {
    switch (elem_of(k)) {
        case ELEM_INT: return dyn_array_get_int(a, j) == val_int(v);
        case ELEM_U8: return dyn_array_get_u8(a, j) == val_u8(v);
        case ELEM_FLOAT: return dyn_array_get_float(a, j) == val_float(v);
        case ELEM_BOOL: return dyn_array_get_bool(a, j) == val_bool(v);
        case ELEM_STRING: { char *s = dyn_array_get_string(a, j); return s && !strcmp(s, val_str(v)); }
        case ELEM_ARRAY: return dyn_array_get_array(a, j) == val_array(v) && inner_intact(v);
        default: { SVal s = val_struct(v); void *p = dyn_array_get_struct(a, j); return p && !memcmp(p, &s, sizeof s); }
    }
}

/* RT_PROBE_LOOSE_CAP names the container families ("dyn", "list") whose growth policy could not be read from the
 * sources in the form the model knows: for them only the invariant length <= capacity is required (C20 states the
 * invariant, not the policy), the exact capacity law of NativeRT.tla is not compared. */
static bool loose_cap(const char *fam) {
    const char *e = getenv("RT_PROBE_LOOSE_CAP");
    return e && strstr(e, fam) != NULL;
}
static bool cap_ok(const char *fam, long have, long len, long cap) {
    return loose_cap(fam) ? have >= len : have == cap;
}

static bool compare_dyn(DynArray *a, const char *k, long len, long cap, const cJSON *elems, char *why, size_t n) {
    if (!a) { snprintf(why, n, "array is NULL"); return false; }
    if (dyn_array_get_elem_type(a) != elem_of(k)) { snprintf(why, n, "elem_type %d, prescribed kind %s", (int)dyn_array_get_elem_type(a), k); return false; }
    if (dyn_array_length(a) != len) { snprintf(why, n, "length %lld, prescribed %ld", (long long)dyn_array_length(a), len); return false; }
    if (!cap_ok("dyn", (long)dyn_array_capacity(a), len, cap)) { snprintf(why, n, "capacity %lld, prescribed %ld", (long long)dyn_array_capacity(a), cap); return false; }
    for (long j = 0; j < len; j++) {
        long v = (long)cJSON_GetArrayItem(elems, (int)j)->valuedouble;
        if (!elem_eq(a, k, j, v)) { snprintf(why, n, "element %ld differs from the image of abstract value %ld", j, v); return false; }
    }
    return true;
}

static bool compare_c(CState *c, const cJSON *s, char *why, size_t n) {
    long len = JI(s, "len"), cap = JI(s, "cap");
    const cJSON *elems = J(s, "elems");
    if (cJSON_GetArraySize(elems) != len) { snprintf(why, n, "malformed record"); return false; }
    if (c->li) {
        if (list_int_length(c->li) != len) { snprintf(why, n, "length %d, prescribed %ld", list_int_length(c->li), len); return false; }
        if (!cap_ok("list", (long)list_int_capacity(c->li), len, cap)) { snprintf(why, n, "capacity %d, prescribed %ld", list_int_capacity(c->li), cap); return false; }
        if (list_int_is_empty(c->li) != (len == 0)) { snprintf(why, n, "is_empty wrong"); return false; }
        for (long j = 0; j < len; j++) {
            long v = (long)cJSON_GetArrayItem(elems, (int)j)->valuedouble;
            if (list_int_get(c->li, (int)j) != val_int(v)) { snprintf(why, n, "element %ld differs from the image of abstract value %ld", j, v); return false; }
        }
        return true;
    }
    if (c->ls) {
        if (list_string_length(c->ls) != len) { snprintf(why, n, "length %d, prescribed %ld", list_string_length(c->ls), len); return false; }
        if (!cap_ok("list", (long)list_string_capacity(c->ls), len, cap)) { snprintf(why, n, "capacity %d, prescribed %ld", list_string_capacity(c->ls), cap); return false; }
        if (list_string_is_empty(c->ls) != (len == 0)) { snprintf(why, n, "is_empty wrong"); return false; }
        for (long j = 0; j < len; j++) {
            long v = (long)cJSON_GetArrayItem(elems, (int)j)->valuedouble;
            char *sv = list_string_get(c->ls, (int)j);
            if (!sv || strcmp(sv, val_str(v))) { snprintf(why, n, "element %ld differs from the image of abstract value %ld", j, v); return false; }
        }
        return true;
    }
    /* dyn_array: the record names the representative kind of the contract class; only
     * "struct or not" has to agree (push_struct promotes an empty array to ELEM_STRUCT) */
    if ((!strcmp(JS(s, "kind"), "struct")) != (!strcmp(c->kind, "struct"))) {
        snprintf(why, n, "element kind is %s, the spec prescribes %s", c->kind, JS(s, "kind")); return false;
    }
    if (!compare_dyn(c->a, c->kind, len, cap, elems, why, n)) return false;
    if (JI(s, "ohas")) {
        const cJSON *oe = J(s, "oelems");
        char w2[256];
        if (!compare_dyn(c->o, c->kind, cJSON_GetArraySize(oe), JI(s, "ocap"), oe, w2, sizeof w2)) {
            snprintf(why, n, "other array (clone side): %s", w2); return false;
        }
    }
    return true;
}

typedef struct { CState *c; const cJSON *e; const cJSON *s; char why[512]; } StepCtx;

/* perform one container step in this process; returns 0 and fills why on mismatch of the
 * call's own result (return value / success flag); state comparison is done by the caller */
static int do_cstep(void *p) {
    StepCtx *x = (StepCtx *)p;
    CState *c = x->c;
    const char *op = JS(x->e, "op"), *res = JS(x->e, "res");
    long i = JI(x->e, "i"), v = JI(x->e, "v"), ret = JI(x->e, "ret");
    bool ok = !strcmp(res, "ok"), isfail = !strcmp(res, "fail");
    x->why[0] = 0;
#define BAD(...) do { snprintf(x->why, sizeof x->why, __VA_ARGS__); return 1; } while (0)
    if (!strcmp(op, "push")) { c_push(c, v); return 0; }
    if (!strcmp(op, "push_own")) {       /* (array_push a (at a i)) on an array<struct> */
        void *src = dyn_array_get_struct(c->a, i);
        if (!src) BAD("get_struct in range returned NULL");
        dyn_array_push_struct(c->a, src, sizeof(SVal));
        return 0;
    }
    if (!strcmp(op, "set_own")) {        /* x[i] = x[i] */
        if (c->li) list_int_set(c->li, (int)i, list_int_get(c->li, (int)i));
        else if (c->ls) list_string_set(c->ls, (int)i, list_string_get(c->ls, (int)i));
        else BAD("set_own on a dyn_array");
        return 0;
    }
    if (!strcmp(op, "clear")) {
        if (c->li) list_int_clear(c->li); else if (c->ls) list_string_clear(c->ls); else dyn_array_clear(c->a);
        return 0;
    }
    if (!strcmp(op, "pop")) {
        if (c->li) { int64_t r = list_int_pop(c->li); if (ok && r != val_int(ret)) BAD("pop returned a value other than the image of %ld", ret); return 0; }
        if (c->ls) { char *r = list_string_pop(c->ls); if (ok && (!r || strcmp(r, val_str(ret)))) BAD("pop returned a value other than the image of %ld", ret); free(r); return 0; }
        bool succ = true; bool same = true;
        switch (elem_of(c->kind)) {
            case ELEM_INT: { int64_t r = dyn_array_pop_int(c->a, &succ); same = r == val_int(ret); } break;
            case ELEM_U8: { uint8_t r = dyn_array_pop_u8(c->a, &succ); same = r == val_u8(ret); } break;
            case ELEM_FLOAT: { double r = dyn_array_pop_float(c->a, &succ); same = r == val_float(ret); } break;
            case ELEM_BOOL: { bool r = dyn_array_pop_bool(c->a, &succ); same = r == val_bool(ret); } break;
            case ELEM_STRING: { const char *r = dyn_array_pop_string(c->a, &succ); same = r && !strcmp(r, val_str(ret)); } break;
            case ELEM_ARRAY: { DynArray *r = dyn_array_pop_array(c->a, &succ); same = r == val_array(ret); } break;
            default: { SVal out; memset(&out, 0, sizeof out); SVal w = val_struct(ret);
                       dyn_array_pop_struct(c->a, &out, sizeof out, &succ); same = !memcmp(&out, &w, sizeof w); } break;
        }
        if (ok && !succ) BAD("pop reported failure on a non-empty array");
        if (ok && !same) BAD("pop returned a value other than the image of %ld", ret);
        if (isfail && succ) BAD("pop of an empty array reported success");
        return 0;
    }
    if (!strcmp(op, "get")) {
        if (c->li) { int64_t r = list_int_get(c->li, (int)i); if (ok && r != val_int(ret)) BAD("get returned a wrong value"); return 0; }
        if (c->ls) { char *r = list_string_get(c->ls, (int)i); if (ok && (!r || strcmp(r, val_str(ret)))) BAD("get returned a wrong value"); return 0; }
        if (elem_of(c->kind) == ELEM_STRUCT) {
            void *p2 = dyn_array_get_struct(c->a, i);
            if (isfail && p2 != NULL) BAD("get_struct out of range returned a non-NULL pointer");
            if (ok) { SVal w = val_struct(ret); if (!p2 || memcmp(p2, &w, sizeof w)) BAD("get returned a wrong value"); }
            return 0;
        }
        if (ok) { if (!elem_eq(c->a, c->kind, i, ret)) BAD("get returned a wrong value"); return 0; }
        /* out of contract: just make the call (we are in a child) */
        switch (elem_of(c->kind)) {
            case ELEM_INT: (void)dyn_array_get_int(c->a, i); break;
            case ELEM_U8: (void)dyn_array_get_u8(c->a, i); break;
            case ELEM_FLOAT: (void)dyn_array_get_float(c->a, i); break;
            case ELEM_BOOL: (void)dyn_array_get_bool(c->a, i); break;
            case ELEM_STRING: (void)dyn_array_get_string(c->a, i); break;
            default: (void)dyn_array_get_array(c->a, i); break;
        }
        return 0;
    }
    if (!strcmp(op, "set")) {
        if (c->li) { list_int_set(c->li, (int)i, val_int(v)); return 0; }
        if (c->ls) { list_string_set(c->ls, (int)i, val_str(v)); return 0; }
        switch (elem_of(c->kind)) {
            case ELEM_INT: dyn_array_set_int(c->a, i, val_int(v)); break;
            case ELEM_U8: dyn_array_set_u8(c->a, i, val_u8(v)); break;
            case ELEM_FLOAT: dyn_array_set_float(c->a, i, val_float(v)); break;
            case ELEM_BOOL: dyn_array_set_bool(c->a, i, val_bool(v)); break;
            case ELEM_STRING: dyn_array_set_string(c->a, i, val_str(v)); break;
            case ELEM_ARRAY: dyn_array_set_array(c->a, i, val_array(v)); break;
            default: { SVal s = val_struct(v); dyn_array_set_struct(c->a, i, &s, sizeof s); } break;
        }
        return 0;
    }
    if (!strcmp(op, "remove")) {
        if (c->li) { int64_t r = list_int_remove(c->li, (int)i); if (ok && r != val_int(ret)) BAD("remove returned a wrong value"); return 0; }
        if (c->ls) { char *r = list_string_remove(c->ls, (int)i); if (ok && (!r || strcmp(r, val_str(ret)))) BAD("remove returned a wrong value"); free(r); return 0; }
        DynArray *r = dyn_array_remove_at(c->a, i);
        if (ok && r != c->a) BAD("remove_at did not return the array");
        return 0;
    }
    if (!strcmp(op, "insert")) {
        if (c->li) list_int_insert(c->li, (int)i, val_int(v)); else if (c->ls) list_string_insert(c->ls, (int)i, val_str(v));
        else BAD("insert on a dyn_array: not in the API");
        return 0;
    }
    if (!strcmp(op, "reserve")) { dyn_array_reserve(c->a, i); return 0; }
    if (!strcmp(op, "clone")) {
        DynArray *n = dyn_array_clone(c->a);
        if (!n) BAD("clone returned NULL");
        if (n == c->a) BAD("clone returned the same array");
        c->o = n;           /* a previous clone, if any, is dropped (leak is irrelevant here) */
        return 0;
    }
    if (!strcmp(op, "swap")) { DynArray *t = c->a; c->a = c->o; c->o = t; return 0; }
    if (!strcmp(op, "push_wrong")) {
        if (elem_of(c->kind) == ELEM_INT) dyn_array_push_float(c->a, 1.0); else dyn_array_push_int(c->a, 1);
        return 0;
    }
    if (!strcmp(op, "push_struct")) {
        SVal s = val_struct(v);
        dyn_array_push_struct(c->a, &s, sizeof s);
        if (ok) { c->kind = "struct"; g_kind = "struct"; }   /* failures are reported under the current kind */
        return 0;
    }
    BAD("unknown op %s", op);
#undef BAD
}

static int child_cstep_abort(void *p) { do_cstep(p); return CHILD_RETURNED; }
/* trial run of a deviation-marked step: the step, its result and the state after it */
static int child_cstep_trial(void *p) {
    StepCtx *x = (StepCtx *)p;
    if (do_cstep(p)) { fprintf(stderr, "TRIAL: %s\n", x->why); return 3; }
    char why[512];
    if (!compare_c(x->c, x->s, why, sizeof why)) { fprintf(stderr, "TRIAL: %s\n", why); return 3; }
    return 0;
}

static void replay_container(const cJSON *h, const char *family, const char *kind) {
    CState c; memset(&c, 0, sizeof c);
    int nsteps = cJSON_GetArraySize(h);
    const cJSON *first = cJSON_GetArrayItem(h, 0);
    const cJSON *e0 = J(first, "e");
    long ic = JI(e0, "i"), prefill = JI(e0, "v");
    char why[1200];
    c.kind = kind;
    c.is_list = !strcmp(family, "list");
    g_replays++;
    memset(g_inner, 0, sizeof g_inner);
    if (!strcmp(kind, "list_int")) c.li = ic == 0 ? list_int_new() : list_int_with_capacity((int)(ic - 100));
    else if (!strcmp(kind, "list_string")) c.ls = ic == 0 ? list_string_new() : list_string_with_capacity((int)(ic - 100));
    else c.a = ic == 0 ? dyn_array_new(elem_of(kind)) : dyn_array_new_with_capacity(elem_of(kind), ic - 100);
    for (long j = 1; j <= prefill; j++) c_push(&c, 10 + j);
    if (!compare_c(&c, J(first, "s"), why, sizeof why)) { fail(0, e0, "state after construction differs from the spec", why); goto done; }
    for (int k = 1; k < nsteps; k++) {
        const cJSON *st = cJSON_GetArrayItem(h, k);
        const cJSON *e = J(st, "e");
        const cJSON *s = J(st, "s");
        const char *res = JS(e, "res"), *dev = JS(e, "dev");
        StepCtx x; x.c = &c; x.e = e; x.s = s; x.why[0] = 0;
        g_steps++;
        if (!strcmp(res, "abort")) {
            if (g_fork_every > 0 && g_line % g_fork_every == 0) {
                ChildResult r = run_child(child_cstep_abort, &x);
                if (!deliberate_stop(&r, why, sizeof why)) fail(k, e, "out-of-contract call did not stop the program cleanly", why);
            } else {
                g_caught = 0; g_inproc++;
                if (setjmp(g_jb) == 0) { g_catch = 1; do_cstep(&x); g_catch = 0; }
                g_catch = 0;
                if (!g_caught) fail(k, e, "out-of-contract call did not stop the program cleanly", "out-of-contract call returned and the program continued");
                else if (g_caught == 'E' && g_caught_code != 1) fail(k, e, "out-of-contract call did not stop the program cleanly", "exit with a status other than 1");
                else if (!compare_c(&c, s, why, sizeof why)) fail(k, e, "out-of-contract call changed the state before it stopped", why);
            }
            break;      /* aborted histories end here */
        }
        if (dev[0]) {
            /* the prescribed kind of the record may be the representative's */
            ChildResult r = run_child(child_cstep_trial, &x);
            if (!(r.how == 'E' && r.code == 0) || has_sanitizer_report(r.text)) {
                g_devhits++;
                snprintf(why, sizeof why, "%s %d: %.1000s", r.how == 'E' ? "exit" : "signal", r.code, r.text);
                fail(k, e, "in-contract step failed", why);
                break;
            }
        }
        if (do_cstep(&x)) { fail(k, e, "result of the call differs from the spec", x.why); break; }
        if (!compare_c(&c, s, why, sizeof why)) { fail(k, e, "state after the step differs from the spec", why); break; }
    }
done:
    if (c.li) list_int_free(c.li);
    if (c.ls) list_string_free(c.ls);
    /* DynArrays are GC objects: gc_shutdown() frees every remaining one with its data */
    gc_shutdown();
}

/* ------------------------------------------------------------------ gc family */
#define MAXOBJ 8
typedef struct { void *p[MAXOBJ + 1]; char k[MAXOBJ + 1]; size_t base; } GState;   /* k: 's'truct 'a'rray 't'string */

static bool compare_g(GState *g, const cJSON *s, char *why, size_t n) {
    long cnt = JI(s, "n");
    const cJSON *rc = J(s, "rc"), *live = J(s, "live"), *fld = J(s, "fld");
    long nlive = 0;
    for (long o = 1; o <= cnt; o++) {
        bool ml = cJSON_GetArrayItem(live, (int)o - 1)->valuedouble != 0;
        bool rl = gc_is_managed(g->p[o]);
        if (ml != rl) { snprintf(why, n, "object %ld: %s in the runtime, %s in the spec", o, rl ? "live" : "freed", ml ? "live" : "freed"); return false; }
        if (!ml) continue;
        nlive++;
        long mrc = (long)cJSON_GetArrayItem(rc, (int)o - 1)->valuedouble;
        long rrc = (long)gc_get_header(g->p[o])->ref_count;
        if (mrc != rrc) { snprintf(why, n, "object %ld: ref_count %ld, prescribed %ld", o, rrc, mrc); return false; }
        if (g->k[o] == 's') {
            const cJSON *fo = cJSON_GetArrayItem(fld, (int)o - 1);
            for (int f = 0; f < cJSON_GetArraySize(fo); f++) {
                long t = (long)cJSON_GetArrayItem(fo, f)->valuedouble;
                void *want = t ? g->p[t] : NULL;
                if (gc_struct_get_field((GCStruct *)g->p[o], f) != want) { snprintf(why, n, "struct %ld field %d does not point to object %ld", o, f, t); return false; }
            }
        }
    }
    GCStats stt = gc_get_stats();
    if ((long)(stt.num_objects - g->base) != nlive) { snprintf(why, n, "gc stats: %ld live objects, prescribed %ld", (long)(stt.num_objects - g->base), nlive); return false; }
    return true;
}

typedef struct { GState *g; const cJSON *e; const cJSON *s; char why[512]; } GStepCtx;

static int do_gstep(void *p) {
    GStepCtx *x = (GStepCtx *)p;
    GState *g = x->g;
    const char *op = JS(x->e, "op"), *res = JS(x->e, "res");
    long i = JI(x->e, "i"), v = JI(x->e, "v"), ret = JI(x->e, "ret"), f = JI(x->e, "f");
    x->why[0] = 0;
#define BAD(...) do { snprintf(x->why, sizeof x->why, __VA_ARGS__); return 1; } while (0)
    if (i < 0 || i > MAXOBJ || v < 0 || v > MAXOBJ) BAD("object id out of the probe's range");
    if (!strcmp(op, "alloc")) {
        const char *k = JS(x->e, "k");
        if (!strcmp(k, "struct")) { g->p[i] = gc_struct_new("S", 2); g->k[i] = 's'; }
        else if (!strcmp(k, "array")) { DynArray *a = dyn_array_new(ELEM_INT); if (a) { dyn_array_push_int(a, 7); } g->p[i] = a; g->k[i] = 'a'; }
        else { char *t = gc_alloc_string(5); if (t) memcpy(t, "hello", 5); g->p[i] = t; g->k[i] = 't'; }
        if (!g->p[i]) BAD("allocation returned NULL");
        return 0;
    }
    if (!strcmp(op, "retain")) { gc_retain(g->p[i]); return 0; }
    if (!strcmp(op, "release") || !strcmp(op, "stale_release")) { gc_release(g->p[i]); return 0; }
    if (!strcmp(op, "collect")) { gc_collect_cycles(); return 0; }
    if (!strcmp(op, "setfield")) {
        void *val = v ? g->p[v] : NULL;
        FieldType ft = !v ? FIELD_STRUCT : g->k[v] == 's' ? FIELD_STRUCT : g->k[v] == 'a' ? FIELD_ARRAY : FIELD_STRING;
        gc_struct_set_field((GCStruct *)g->p[i], (int)f, f == 0 ? "left" : "right", val, ft, true);
        return 0;
    }
    if (!strcmp(op, "getfield")) {
        void *r = gc_struct_get_field((GCStruct *)g->p[i], (int)f);
        if (!strcmp(res, "fail")) { if (r) BAD("get_field out of range returned a non-NULL pointer"); return 0; }
        if (r != (ret ? g->p[ret] : NULL)) BAD("get_field returned a pointer other than object %ld", ret);
        return 0;
    }
    BAD("unknown op %s", op);
#undef BAD
}
static int child_gstep_abort(void *p) { do_gstep(p); return CHILD_RETURNED; }
static int child_gstep_trial(void *p) {
    GStepCtx *x = (GStepCtx *)p;
    if (do_gstep(p)) { fprintf(stderr, "TRIAL: %s\n", x->why); return 3; }
    char why[512];
    if (!compare_g(x->g, x->s, why, sizeof why)) { fprintf(stderr, "TRIAL: %s\n", why); return 3; }
    return 0;
}

static void replay_gc(const cJSON *h) {
    GState g; memset(&g, 0, sizeof g);
    int nsteps = cJSON_GetArraySize(h);
    char why[1200];
    g_replays++;
    gc_init();
    g.base = gc_get_stats().num_objects;
    for (int k = 1; k < nsteps; k++) {
        const cJSON *st = cJSON_GetArrayItem(h, k);
        const cJSON *e = J(st, "e"), *s = J(st, "s");
        const char *res = JS(e, "res"), *dev = JS(e, "dev");
        GStepCtx x; x.g = &g; x.e = e; x.s = s; x.why[0] = 0;
        g_steps++;
        if (!strcmp(res, "abort")) {
            if (g_fork_every > 0 && g_line % g_fork_every == 0) {
                ChildResult r = run_child(child_gstep_abort, &x);
                if (!deliberate_stop(&r, why, sizeof why)) fail(k, e, "out-of-contract call did not stop the program cleanly", why);
            } else {
                g_caught = 0; g_inproc++;
                if (setjmp(g_jb) == 0) { g_catch = 1; do_gstep(&x); g_catch = 0; }
                g_catch = 0;
                if (!g_caught) fail(k, e, "out-of-contract call did not stop the program cleanly", "out-of-contract call returned and the program continued");
                else if (!compare_g(&g, s, why, sizeof why)) fail(k, e, "out-of-contract call changed the state before it stopped", why);
            }
            break;
        }
        if (dev[0]) {
            ChildResult r = run_child(child_gstep_trial, &x);
            if (!(r.how == 'E' && r.code == 0) || has_sanitizer_report(r.text)) {
                g_devhits++;
                snprintf(why, sizeof why, "%s %d: %.1000s", r.how == 'E' ? "exit" : "signal", r.code, r.text);
                fail(k, e, "in-contract step failed", why);
                break;
            }
        }
        if (do_gstep(&x)) { fail(k, e, "result of the call differs from the spec", x.why); break; }
        if (!compare_g(&g, s, why, sizeof why)) { fail(k, e, "state after the step differs from the spec", why); break; }
    }
    gc_shutdown();      /* frees whatever is left (also exercises the shutdown path under ASan) */
}


/* ------------------------------------------------------------------ str family (nl_string.c) */
static size_t json_bytes(const cJSON *arr, unsigned char *out, size_t cap) {
    size_t n = (size_t)cJSON_GetArraySize(arr);
    if (n > cap) n = cap;
    for (size_t k = 0; k < n; k++) out[k] = (unsigned char)cJSON_GetArrayItem(arr, (int)k)->valuedouble;
    return n;
}

/* compare one nl_string_t with a prescribed {bytes|len, cap, nt, utf} record */
static bool compare_str(nl_string_t *s, const cJSON *want, char *why, size_t n) {
    unsigned char b[256];
    size_t len = json_bytes(J(want, "bytes"), b, sizeof b);
    if (!s) { snprintf(why, n, "string is NULL"); return false; }
    if (nl_string_length(s) != len) { snprintf(why, n, "length %zu, prescribed %zu", nl_string_length(s), len); return false; }
    if (s->capacity != (size_t)JI(want, "cap")) { snprintf(why, n, "capacity %zu, prescribed %ld", s->capacity, JI(want, "cap")); return false; }
    if (s->null_terminated != (JI(want, "nt") != 0)) { snprintf(why, n, "null_terminated %d, prescribed %ld", (int)s->null_terminated, JI(want, "nt")); return false; }
    if (s->is_utf8 != (JI(want, "utf") != 0)) { snprintf(why, n, "is_utf8 %d, prescribed %ld", (int)s->is_utf8, JI(want, "utf")); return false; }
    size_t outlen = 0;
    const unsigned char *d = (const unsigned char *)nl_string_to_binary(s, &outlen);
    if (outlen != len) { snprintf(why, n, "to_binary length %zu, prescribed %zu", outlen, len); return false; }
    for (size_t k = 0; k < len; k++) {
        char c;
        if (d[k] != b[k]) { snprintf(why, n, "byte %zu is %u, prescribed %u", k, d[k], b[k]); return false; }
        if (!nl_string_byte_at_safe(s, k, &c) || (unsigned char)c != b[k]) { snprintf(why, n, "byte_at_safe(%zu) disagrees", k); return false; }
    }
    if (s->null_terminated && d[len] != 0) { snprintf(why, n, "null_terminated is set but data[length] != 0"); return false; }
    return true;
}

typedef struct { nl_string_t *s; const cJSON *e; const cJSON *st; char why[512]; } SStepCtx;

static int do_sstep(void *p) {
    SStepCtx *x = (SStepCtx *)p;
    const char *op = JS(x->e, "op"), *res = JS(x->e, "res");
    long i = JI(x->e, "i"), v = JI(x->e, "v"), ret = JI(x->e, "ret");
    const cJSON *r = J(x->e, "r");
    nl_string_t *out = NULL;
    bool produces = false;
    x->why[0] = 0;
#define BAD(...) do { snprintf(x->why, sizeof x->why, __VA_ARGS__); return 1; } while (0)
    if (!strcmp(op, "byte_at_safe")) {
        char c = 0;
        bool ok = nl_string_byte_at_safe(x->s, (size_t)i, &c);       /* -1 becomes SIZE_MAX */
        if (!strcmp(res, "fail")) { if (ok) BAD("byte_at_safe out of range reported success"); return 0; }
        if (!ok || (unsigned char)c != (unsigned char)ret) BAD("byte_at_safe returned a wrong byte");
        return 0;
    }
    if (!strcmp(op, "validate")) { bool ok = nl_string_validate_utf8(x->s); if (ok != (ret != 0)) BAD("validate_utf8 returned %d, prescribed %ld", (int)ok, ret); return 0; }
    if (!strcmp(op, "utf8_length")) { int64_t n = nl_string_utf8_length(x->s); if (n != ret) BAD("utf8_length %lld, prescribed %ld", (long long)n, ret); return 0; }
    if (!strcmp(op, "utf8_char_at")) { int32_t c = nl_string_utf8_char_at(x->s, (size_t)i); if (c != ret) BAD("utf8_char_at(%ld) = %d, prescribed %ld", i, (int)c, ret); return 0; }
    if (!strcmp(op, "to_cstr")) { const char *c = nl_string_to_cstr(x->s); if (!c || c != x->s->data) BAD("to_cstr did not return the data pointer"); return 0; }
    if (!strcmp(op, "reserve")) { nl_string_reserve(x->s, (size_t)i); return 0; }
    if (!strcmp(op, "shrink")) { nl_string_shrink_to_fit(x->s); return 0; }
    if (!strcmp(op, "free")) { nl_string_free(x->s); x->s = NULL; return 0; }
    if (!strcmp(op, "concat")) { out = nl_string_concat(x->s, x->s); produces = true; }
    else if (!strcmp(op, "substring")) { out = nl_string_substring(x->s, (size_t)i, (size_t)v); produces = true; }
    else if (!strcmp(op, "clone")) { out = nl_string_clone(x->s); produces = true; }
    if (produces) {
        char w2[300];
        if (!out) BAD("%s returned NULL", op);
        if (out == x->s) BAD("%s returned its argument", op);
        if (!compare_str(out, r, w2, sizeof w2)) { snprintf(x->why, sizeof x->why, "result of %s: %s", op, w2); nl_string_free(out); return 1; }
        if (!strcmp(op, "clone") && !nl_string_equals(out, x->s)) { nl_string_free(out); BAD("clone is not equal to the original"); }
        nl_string_free(out);
        return 0;
    }
    BAD("unknown op %s", op);
#undef BAD
}
static int child_sstep_trial(void *p) {
    SStepCtx *x = (SStepCtx *)p;
    if (do_sstep(p)) { fprintf(stderr, "TRIAL: %s\n", x->why); return 3; }
    char why[512];
    if (x->s && !compare_str(x->s, x->st, why, sizeof why)) { fprintf(stderr, "TRIAL: %s\n", why); return 3; }
    if (x->s) nl_string_free(x->s);        /* the damage of a bad shrink shows when the string is freed */
    return 0;
}

static void replay_str(const cJSON *h) {
    int nsteps = cJSON_GetArraySize(h);
    const cJSON *first = cJSON_GetArrayItem(h, 0);
    const cJSON *e0 = J(first, "e");
    const char *c = JS(e0, "c");
    unsigned char b[256];
    size_t bl = json_bytes(J(e0, "b"), b, sizeof b - 1);
    char why[1200];
    nl_string_t *s;
    g_replays++;
    b[bl] = 0;
    if (!strcmp(c, "new")) s = nl_string_new((const char *)b);
    else if (!strcmp(c, "binary")) s = nl_string_new_binary(b, bl);
    else s = nl_string_with_capacity((size_t)JI(e0, "n"));
    if (!compare_str(s, J(first, "s"), why, sizeof why)) { fail(0, e0, "state after construction differs from the spec", why); if (s) nl_string_free(s); return; }
    for (int k = 1; k < nsteps; k++) {
        const cJSON *st = cJSON_GetArrayItem(h, k);
        const cJSON *e = J(st, "e");
        const char *dev = JS(e, "dev");
        SStepCtx x; x.s = s; x.e = e; x.st = J(st, "s"); x.why[0] = 0;
        g_steps++;
        if (dev[0]) {
            ChildResult r = run_child(child_sstep_trial, &x);
            if (!(r.how == 'E' && r.code == 0) || has_sanitizer_report(r.text)) {
                g_devhits++;
                snprintf(why, sizeof why, "%s %d: %.1000s", r.how == 'E' ? "exit" : "signal", r.code, r.text);
                fail(k, e, "in-contract step failed", why);
                return;                 /* the string is abandoned: its state is not trustworthy */
            }
        }
        if (do_sstep(&x)) { fail(k, e, "result of the call differs from the spec", x.why); s = x.s; break; }
        s = x.s;
        if (!s) return;                 /* freed: end of the history */
        if (!compare_str(s, x.st, why, sizeof why)) { fail(k, e, "state after the step differs from the spec", why); break; }
    }
    if (s) nl_string_free(s);
}

/* ------------------------------------------------------------------ main */
int main(int argc, char **argv) {
    if (argc < 3) { fprintf(stderr, "usage: rt_probe <histories.ndjson> <report.ndjson> [--resume LINE KINDIDX]\n"); return 2; }
    long skip = 0, skipk = 0;       /* --resume L K: continue after kind index K of line L */
    for (int a = 3; a + 2 < argc; a++) if (!strcmp(argv[a], "--resume")) { skip = atol(argv[a + 1]) - 1; skipk = atol(argv[a + 2]) + 1; }
    if (getenv("RT_PROBE_FORK_EVERY")) g_fork_every = atol(getenv("RT_PROBE_FORK_EVERY"));
    FILE *in = fopen(argv[1], "r");
    g_rep = fopen(argv[2], "a");
    if (!in || !g_rep) { perror("rt_probe"); return 2; }
    /* The whole input is read up front and the stream closed: children share the file
     * offset, and an exit() in a child would otherwise reposition it under the parent. */
    char *all = NULL; size_t alln = 0;
    {
        fseek(in, 0, SEEK_END); long sz = ftell(in); fseek(in, 0, SEEK_SET);
        all = malloc((size_t)sz + 1);
        if (!all || fread(all, 1, (size_t)sz, in) != (size_t)sz) { perror("rt_probe: read"); return 2; }
        all[sz] = 0; alln = (size_t)sz;
        fclose(in);
    }
    char *line = all;
    for (char *nl; line < all + alln && (nl = strchr(line, '\n')) != NULL; line = nl + 1) {
        *nl = 0;
        g_line++;
        if (g_line <= skip) continue;
        cJSON *rec = cJSON_Parse(line);
        if (!rec) { fprintf(stderr, "rt_probe: cannot parse line %ld\n", g_line); return 2; }
        const char *family = JS(rec, "family");
        const cJSON *h = J(rec, "h");
        if (!strcmp(family, "str")) {
            if (g_line == skip + 1 && skipk > 0) { cJSON_Delete(rec); continue; }
            g_kind = "str";
            fprintf(g_rep, "@ %ld 0 str\n", g_line); fflush(g_rep);
            replay_str(h);
        } else if (!strcmp(family, "gc")) {
            g_kind = "gc";
            if (g_line == skip + 1 && skipk > 0) { cJSON_Delete(rec); continue; }
            fprintf(g_rep, "@ %ld 0 gc\n", g_line); fflush(g_rep);
            replay_gc(h);
        } else {
            const cJSON *kinds = J(J(cJSON_GetArrayItem(h, 0), "e"), "kinds");
            for (int k = 0; k < cJSON_GetArraySize(kinds); k++) {
                if (g_line == skip + 1 && k < skipk) continue;
                g_kind = cJSON_GetArrayItem(kinds, k)->valuestring;
                fprintf(g_rep, "@ %ld %d %s\n", g_line, k, g_kind); fflush(g_rep);
                replay_container(h, family, g_kind);
            }
        }
        g_kind = "";
        cJSON_Delete(rec);
    }
    fprintf(g_rep, "{\"summary\":1,\"lines\":%ld,\"replays\":%ld,\"steps\":%ld,\"forks\":%ld,\"inproc_stops\":%ld,\"fails\":%ld,\"devhits\":%ld}\n",
            g_line - skip, g_replays, g_steps, g_forks, g_inproc, g_fails, g_devhits);
    fclose(g_rep);
    free(all);
    return 0;
}
