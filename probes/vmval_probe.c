/*
 * vmval_probe: run a NanoISA assembly text (.nasm, src/nanoisa/assembler.h) on the real VM, so that the
 * instruction-level check (harness/props/vmval_lib.py, hook H7) can reach opcodes and operand values the
 * code generator never produces.  The module is NOT verified: the check is about what the VM does with
 * the instructions it executes.
 *
 *   NANOLANG_VERIF_TRACE_VMVAL=<file> vmval_probe prog.nasm
 *
 * stdout: what the program prints; last line "vmval_probe: result=<VmResult> <message>".
 * exit 0 = assembled and executed (whatever the VM result), 3 = not assembled.
 */
#define _GNU_SOURCE
#include <stdio.h>
#include <stdlib.h>
#include <string.h>
#include "nanoisa/isa.h"
#include "nanoisa/nvm_format.h"
#include "nanoisa/assembler.h"
#include "nanovm/vm.h"

int g_argc = 0;
char **g_argv = NULL;

int main(int argc, char **argv) {
    if (argc < 2) { fprintf(stderr, "usage: vmval_probe prog.nasm\n"); return 2; }
    AsmResult ar;
    memset(&ar, 0, sizeof ar);
    NvmModule *mod = asm_assemble_file(argv[1], &ar);
    if (!mod) { fprintf(stderr, "vmval_probe: assembly failed at line %u: %s\n", ar.line, ar.message); return 3; }
    static VmState vm;
    vm_init(&vm, mod);
    VmResult r = vm_execute(&vm);
    fflush(stdout);
    printf("vmval_probe: result=%d %s\n", (int)r, r == VM_OK ? "" : vm.error_msg);
    vm_destroy(&vm);
    nvm_module_free(mod);
    return 0;
}
