/*
 * cop_runner - runs one command (nano_vm --isolate-ffi ...) as a child sub-reaper and reports, as JSON,
 * how it ended and which descendants it left behind (C16: "after the VM exits no co-process remains").
 *
 *   cop_runner <stdout-file> <stderr-file> <timeout-ms> <linger-ms> -- cmd args...
 *
 * Descendants orphaned by the command are re-parented to this process (PR_SET_CHILD_SUBREAPER), so
 * every process the command did not reap itself shows up here with its exit status; `state` is its
 * /proc state when the command ended (Z = already dead but never waited for, otherwise still running).
 * Processes still alive linger-ms after the command ended are reported with "lingering":true and killed.
 */
#define _GNU_SOURCE
#include <dirent.h>
#include <errno.h>
#include <fcntl.h>
#include <signal.h>
#include <stdio.h>
#include <stdlib.h>
#include <string.h>
#include <sys/prctl.h>
#include <sys/wait.h>
#include <time.h>
#include <unistd.h>

static long now_ms(void) { struct timespec t; clock_gettime(CLOCK_MONOTONIC, &t); return t.tv_sec * 1000L + t.tv_nsec / 1000000L; }
static void msleep(int ms) { struct timespec ts = {ms / 1000, (ms % 1000) * 1000000L}; nanosleep(&ts, NULL); }

/* children of `parent` according to /proc: fills pids/states, returns count */
static int children_of(pid_t parent, pid_t *pids, char *states, int max) {
    DIR *d = opendir("/proc");
    if (!d) return 0;
    int n = 0;
    struct dirent *e;
    while ((e = readdir(d)) && n < max) {
        char *end; long pid = strtol(e->d_name, &end, 10);
        if (*end || pid <= 0) continue;
        char path[64], buf[512];
        snprintf(path, sizeof path, "/proc/%ld/stat", pid);
        int fd = open(path, O_RDONLY);
        if (fd < 0) continue;
        ssize_t k = read(fd, buf, sizeof buf - 1);
        close(fd);
        if (k <= 0) continue;
        buf[k] = 0;
        char *rp = strrchr(buf, ')');
        if (!rp) continue;
        char st; long ppid;
        if (sscanf(rp + 1, " %c %ld", &st, &ppid) != 2) continue;
        if (ppid == parent) { pids[n] = (pid_t)pid; states[n] = st; n++; }
    }
    closedir(d);
    return n;
}

int main(int argc, char **argv) {
    if (argc < 7 || strcmp(argv[5], "--")) { fprintf(stderr, "usage: cop_runner out err timeout-ms linger-ms -- cmd...\n"); return 2; }
    int timeout_ms = atoi(argv[3]), linger_ms = atoi(argv[4]);
    prctl(PR_SET_CHILD_SUBREAPER, 1);
    pid_t me = getpid();
    pid_t pid = fork();
    if (pid < 0) { perror("fork"); return 2; }
    if (pid == 0) {
        int o = open(argv[1], O_WRONLY | O_CREAT | O_TRUNC, 0644), e = open(argv[2], O_WRONLY | O_CREAT | O_TRUNC, 0644);
        int z = open("/dev/null", O_RDONLY);
        if (o < 0 || e < 0 || z < 0) _exit(126);
        dup2(z, 0); dup2(o, 1); dup2(e, 2); close(o); close(e); close(z);
        execvp(argv[6], argv + 6);
        _exit(127);
    }
    long t0 = now_ms();
    int status = 0, timed_out = 0;
    /* orphans that die while the command is still running are collected too */
    struct { pid_t pid; int status; char state; int lingering; } orph[64];
    int norph = 0;
    for (;;) {
        int st; pid_t w = waitpid(-1, &st, WNOHANG);
        if (w == pid) { status = st; break; }
        if (w > 0) { if (norph < 64) { orph[norph].pid = w; orph[norph].status = st; orph[norph].state = 'E'; orph[norph].lingering = 0; norph++; } continue; }
        if (now_ms() - t0 > timeout_ms) {
            timed_out = 1;
            kill(pid, SIGCONT); kill(pid, SIGKILL);
            waitpid(pid, &status, 0);
            break;
        }
        msleep(2);
    }
    long t_end = now_ms();
    /* what the command left behind */
    pid_t kids[64]; char states[64];
    int nk = children_of(me, kids, states, 64);
    for (int i = 0; i < nk && norph < 64; i++) { orph[norph].pid = kids[i]; orph[norph].state = states[i]; orph[norph].status = -1; orph[norph].lingering = 0; norph++; }
    long t1 = now_ms();
    for (;;) {
        int st; pid_t w = waitpid(-1, &st, WNOHANG);
        if (w > 0) {
            int found = 0;
            for (int i = 0; i < norph; i++) if (orph[i].pid == w) { orph[i].status = st; found = 1; }
            if (!found && norph < 64) { orph[norph].pid = w; orph[norph].status = st; orph[norph].state = '?'; orph[norph].lingering = 0; norph++; }
            continue;
        }
        if (w < 0 && errno == ECHILD) break;
        if (now_ms() - t1 > linger_ms) {
            pid_t k2[64]; char s2[64];
            int n2 = children_of(me, k2, s2, 64);
            for (int i = 0; i < n2; i++) {
                int found = 0;
                for (int j = 0; j < norph; j++) if (orph[j].pid == k2[i]) { orph[j].lingering = 1; found = 1; }
                if (!found && norph < 64) { orph[norph].pid = k2[i]; orph[norph].state = s2[i]; orph[norph].status = -1; orph[norph].lingering = 1; norph++; }
                kill(k2[i], SIGCONT); kill(k2[i], SIGKILL);
            }
            while (waitpid(-1, NULL, 0) > 0) {}
            break;
        }
        msleep(2);
    }
    printf("{\"timeout\":%s,\"wall_ms\":%ld,", timed_out ? "true" : "false", t_end - t0);
    if (WIFEXITED(status)) printf("\"res\":\"exit\",\"code\":%d,", WEXITSTATUS(status));
    else printf("\"res\":\"sig\",\"code\":%d,", WTERMSIG(status));
    printf("\"orphans\":[");
    for (int i = 0; i < norph; i++) {
        printf("%s{\"pid\":%d,\"state\":\"%c\",\"lingering\":%s,", i ? "," : "", (int)orph[i].pid, orph[i].state, orph[i].lingering ? "true" : "false");
        if (orph[i].status == -1) printf("\"end\":\"unknown\"}");
        else if (WIFEXITED(orph[i].status)) printf("\"end\":\"exit%d\"}", WEXITSTATUS(orph[i].status));
        else printf("\"end\":\"sig%d\"}", WTERMSIG(orph[i].status));
    }
    printf("]}\n");
    return 0;
}
