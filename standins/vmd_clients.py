#!/usr/bin/env python3
"""vmd_clients - client side of Vmd.tla behaviours against a real nano_vmd (C17/C18).

Python 3, standard library only.  Starts a *private* daemon (socket/pid
directory passed through the H4 hook variable NANOLANG_VERIF_VMD_DIR), plays
the client side of scenarios emitted by TLC (spec/Vmd.tla, *_gen.cfg) through
raw unix sockets speaking the framing of src/nanovm/vmd_protocol.h and through
the real `nano_vm --daemon` client, concurrently, with seeded jitter, and
collects what every client observed.  It does not judge: the comparison with
the standalone run and with the reply classes the spec allows is done by
harness/props/c17.py and c18.py.

All protocol constants are parsed from the header at check time.
"""
import json
import os
import random
import re
import signal
import socket
import struct
import subprocess
import sys
import threading
import time
import zlib

# ----------------------------------------------------------------- protocol constants


def parse_protocol(header_path):
    """Extract VMD_* constants and message types from vmd_protocol.h."""
    src = open(header_path).read()
    src_nc = re.sub(r"/\*.*?\*/", " ", src, flags=re.S)
    P = {}
    for name in ("VMD_PROTO_VERSION", "VMD_HEADER_SIZE", "VMD_MAX_PAYLOAD"):
        m = re.search(r"#define\s+%s\s+(.+)" % name, src_nc)
        if not m:
            raise ValueError("cannot find %s in %s" % (name, header_path))
        expr = m.group(1).strip()
        if not re.fullmatch(r"[0-9xXa-fA-F\s\*\+\(\)]+", expr):
            raise ValueError("unexpected expression for %s: %r" % (name, expr))
        P[name] = int(eval(expr, {"__builtins__": {}}))
    for m in re.finditer(r"(VMD_MSG_[A-Z_]+)\s*=\s*(0x[0-9a-fA-F]+|\d+)", src_nc):
        P[m.group(1)] = int(m.group(2), 0)
    need = ["VMD_MSG_LOAD_EXEC", "VMD_MSG_PING", "VMD_MSG_STATUS", "VMD_MSG_OUTPUT", "VMD_MSG_EXIT_CODE",
            "VMD_MSG_ERROR", "VMD_MSG_PONG", "VMD_MSG_STATUS_RSP"]
    for n in need:
        if n not in P:
            raise ValueError("cannot find %s in %s" % (n, header_path))
    if P["VMD_HEADER_SIZE"] != 8:
        raise ValueError("header size %d: this driver knows the 8-byte layout u8 u8 u16 u32" % P["VMD_HEADER_SIZE"])
    P["known_types"] = sorted(v for k, v in P.items() if k.startswith("VMD_MSG_"))
    return P


def header(P, mtype, length, version=None, flags=0):
    return struct.pack("<BBHI", P["VMD_PROTO_VERSION"] if version is None else version, mtype, flags,
                       length & 0xFFFFFFFF)


# ----------------------------------------------------------------- .nvm editor (format: src/nanoisa/nvm_format.h)
NVM_HEADER_SIZE = 32
NVM_SECTION_CODE, NVM_SECTION_FUNCTIONS = 1, 3
NVM_FUNCTION_ENTRY_SIZE = 18


def nvm_sections(blob):
    n = struct.unpack_from("<I", blob, 16)[0]
    return [struct.unpack_from("<III", blob, NVM_HEADER_SIZE + 12 * i) for i in range(n)]


def nvm_fix_crc(blob):
    b = bytearray(blob)
    struct.pack_into("<I", b, 28, zlib.crc32(bytes(b[NVM_HEADER_SIZE:])) & 0xFFFFFFFF)
    return bytes(b)


def nvm_crc_ok(blob):
    return struct.unpack_from("<I", blob, 28)[0] == (zlib.crc32(blob[NVM_HEADER_SIZE:]) & 0xFFFFFFFF)


def nvm_hostile(blob, variant):
    """Well-formed container (checksum recomputed) whose content the bytecode verifier must refuse."""
    b = bytearray(blob)
    entry = struct.unpack_from("<I", b, 12)[0]
    secs = {t: (off, sz) for t, off, sz in nvm_sections(blob)}
    foff, fsz = secs[NVM_SECTION_FUNCTIONS]
    coff, csz = secs[NVM_SECTION_CODE]
    ent = foff + NVM_FUNCTION_ENTRY_SIZE * entry
    if variant == "fn_offset":          # main's code_offset far outside the code section
        struct.pack_into("<I", b, ent + 6, 0x7FFFFFF0)
    elif variant == "fn_offset_near":   # just behind the code section
        struct.pack_into("<I", b, ent + 6, csz + 4096)
    elif variant == "fn_length":        # main's code runs over the end of the code section
        struct.pack_into("<I", b, ent + 10, csz + 0x100000)
    elif variant == "wrap_small":       # offset + length wraps to 4 in 32-bit arithmetic
        struct.pack_into("<I", b, ent + 6, 0xFFFF0000)
        struct.pack_into("<I", b, ent + 10, 0x00010004)
    elif variant == "wrap_top":         # offset just below 2^32, length 0x20: the sum wraps to 0x10
        struct.pack_into("<I", b, ent + 6, 0xFFFFFFF0)
        struct.pack_into("<I", b, ent + 10, 0x20)
    elif variant == "wrap_half":        # 2^31 + (2^31 + 8): the sum wraps to 8
        struct.pack_into("<I", b, ent + 6, 0x80000000)
        struct.pack_into("<I", b, ent + 10, 0x80000008)
    elif variant == "bad_opcode":       # first instruction of main replaced by an undefined opcode
        mo = struct.unpack_from("<I", b, ent + 6)[0]
        b[coff + mo] = 0xFF
    else:
        raise ValueError(variant)
    return nvm_fix_crc(bytes(b))


def nvm_hostile_proof(blob):
    """Why the image is hostile, judged on the image itself with unbounded integers: "range" if some function entry
    does not lie inside the code section, "opcode" if main starts with byte 0xFF, None otherwise."""
    secs = {t: (off, sz) for t, off, sz in nvm_sections(blob)}
    if NVM_SECTION_FUNCTIONS not in secs or NVM_SECTION_CODE not in secs or not nvm_crc_ok(blob):
        return None
    foff, fsz = secs[NVM_SECTION_FUNCTIONS]
    coff, csz = secs[NVM_SECTION_CODE]
    entry = struct.unpack_from("<I", blob, 12)[0]
    for i in range(fsz // NVM_FUNCTION_ENTRY_SIZE):
        o, ln = struct.unpack_from("<II", blob, foff + NVM_FUNCTION_ENTRY_SIZE * i + 6)
        if o > csz or o + ln > csz:
            return "range"
    mo = struct.unpack_from("<I", blob, foff + NVM_FUNCTION_ENTRY_SIZE * entry + 6)[0]
    if blob[coff + mo] == 0xFF:
        return "opcode"
    return None


HOSTILE_VARIANTS = ("fn_offset", "wrap_small", "fn_length", "wrap_top", "bad_opcode", "wrap_half", "fn_offset_near")

# ----------------------------------------------------------------- daemon life cycle


def proc_state(pid):
    try:
        s = open("/proc/%d/stat" % pid).read()
        return s[s.rindex(")") + 2]
    except (OSError, ValueError):
        return None


def daemons_of_dir(vmd_dir):
    """pids of nano_vmd processes whose environment names this private directory (incl. lazily launched ones)."""
    pat = ("NANOLANG_VERIF_VMD_DIR=%s" % vmd_dir).encode() + b"\0"
    out = []
    for p in os.listdir("/proc"):
        if not p.isdigit():
            continue
        try:
            env = open("/proc/%s/environ" % p, "rb").read() + b"\0"
            exe = os.path.basename(os.readlink("/proc/%s/exe" % p))
        except OSError:
            continue
        if pat in env and exe.startswith("nano_vmd"):
            out.append(int(p))
    return out


class Daemon:
    """A private nano_vmd.  Always use as a context manager: the daemon is killed on exit, also on failure."""

    def __init__(self, binary, vmd_dir, P, trace=None, yield_seed=None, env=None, log=None, start=True,
                 start_timeout=30.0):
        self.binary, self.dir, self.P = binary, vmd_dir, P
        self.sock = os.path.join(vmd_dir, "vmd.sock")
        self.pidfile = os.path.join(vmd_dir, "vmd.pid")
        if len(self.sock) > 100:
            raise ValueError("socket path too long for sockaddr_un: %s" % self.sock)
        os.makedirs(vmd_dir, exist_ok=True)
        for f in (self.sock, self.pidfile):
            if os.path.exists(f):
                os.unlink(f)
        self.env = dict(os.environ)
        self.env.update(env or {})
        self.env["NANOLANG_VERIF_VMD_DIR"] = vmd_dir
        self.client_env = dict(self.env)
        if trace:
            self.env["NANOLANG_VERIF_TRACE_VMD"] = trace
        if yield_seed:
            self.env["NANOLANG_VERIF_YIELD"] = str(yield_seed)
        self.logpath = log or os.path.join(vmd_dir, "daemon.err")
        self.proc = None
        self.start_timeout = start_timeout
        if start:
            self.start()

    def start(self):
        self.logf = open(self.logpath, "ab")
        self.proc = subprocess.Popen([self.binary, "--foreground", "--no-timeout"], env=self.env,
                                     stdin=subprocess.DEVNULL, stdout=self.logf, stderr=self.logf)
        t0 = time.time()
        while time.time() - t0 < self.start_timeout:
            if self.proc.poll() is not None:
                raise RuntimeError("daemon exited at start (status %s): %s" % (self.proc.returncode, self.stderr_text()[-500:]))
            if os.path.exists(self.sock) and self.ping(timeout=5.0):
                return
            time.sleep(0.02)
        self.stop()
        raise RuntimeError("daemon did not come up: %s" % self.stderr_text()[-500:])

    def pid(self):
        return self.proc.pid if self.proc else None

    def stderr_text(self):
        try:
            return open(self.logpath, "rb").read().decode(errors="replace")
        except OSError:
            return ""

    def connect(self, timeout=60.0):
        s = socket.socket(socket.AF_UNIX, socket.SOCK_STREAM)
        s.settimeout(timeout)
        s.connect(self.sock)
        return s

    def ping(self, timeout=30.0):
        try:
            s = self.connect(timeout)
        except OSError:
            return False
        try:
            s.sendall(header(self.P, self.P["VMD_MSG_PING"], 0))
            h = recv_exact(s, 8)
            return bool(h) and len(h) == 8 and h[1] == self.P["VMD_MSG_PONG"]
        except OSError:
            return False
        finally:
            s.close()

    def status(self, timeout=30.0):
        """active_clients as reported by the daemon (includes the asking session), or None."""
        try:
            s = self.connect(timeout)
            s.sendall(header(self.P, self.P["VMD_MSG_STATUS"], 0))
            fr = read_frames(s, self.P, stop_types=(self.P["VMD_MSG_STATUS_RSP"],))
            s.close()
        except OSError:
            return None
        for t, payload in fr["frames"]:
            if t == self.P["VMD_MSG_STATUS_RSP"]:
                m = re.match(rb"active_clients=(\d+)", payload)
                return int(m.group(1)) if m else None
        return None

    def health(self):
        """dict(alive, state, ping): process exists, /proc state is not Z, answers PING."""
        st = proc_state(self.proc.pid) if self.proc else None
        running = self.proc is not None and self.proc.poll() is None and st not in (None, "Z", "X")
        return dict(alive=running, state=st, returncode=self.proc.returncode if self.proc else None,
                    ping=self.ping() if running else False)

    def wait_idle(self, timeout=60.0):
        """Wait until only the asking STATUS session is active: every earlier session has been cleaned up."""
        t0 = time.time()
        n = None
        while time.time() - t0 < timeout:
            n = self.status()
            if n == 1:
                return n
            if n is None and (self.proc.poll() is not None):
                return None
            time.sleep(0.02)
        return n

    def stop(self):
        pids = set(daemons_of_dir(self.dir))
        if self.proc is not None:
            if self.proc.poll() is None:
                self.proc.send_signal(signal.SIGTERM)
                # the accept loop notices g_shutdown when poll() is interrupted
                try:
                    self.proc.wait(timeout=10)
                except subprocess.TimeoutExpired:
                    self.proc.kill()
                    self.proc.wait()
            pids.discard(self.proc.pid)
            try:
                self.logf.close()
            except Exception:
                pass
        for p in pids:                      # daemons launched lazily by `nano_vm --daemon` (setsid, not our children)
            try:
                os.kill(p, signal.SIGKILL)
            except OSError:
                pass
        return self.proc.returncode if self.proc else None

    def __enter__(self):
        return self

    def __exit__(self, *a):
        self.stop()
        return False


def kill_private_daemons(vmd_dir):
    for p in daemons_of_dir(vmd_dir):
        try:
            os.kill(p, signal.SIGKILL)
        except OSError:
            pass


# ----------------------------------------------------------------- raw socket client
def recv_exact(s, n):
    buf = b""
    while len(buf) < n:
        try:
            c = s.recv(n - len(buf))
        except ConnectionResetError:
            return buf
        if not c:
            return buf
        buf += c
    return buf


def read_frames(s, P, stop_types=(), stop_when=None, max_bytes=1 << 30):
    """Read server->client frames until EOF, a frame of a type in stop_types, or stop_when(frames) is true.
    Returns dict(frames=[(type, payload)], eof, timeout, protocol_error)."""
    frames, total = [], 0
    res = dict(frames=frames, eof=False, timeout=False, protocol_error=None)
    try:
        while True:
            h = recv_exact(s, 8)
            if len(h) == 0:
                res["eof"] = True
                break
            if len(h) < 8:
                res["eof"] = True
                res["protocol_error"] = "short header (%d bytes)" % len(h)
                break
            ver, t, flags, ln = struct.unpack("<BBHI", h)
            if ver != P["VMD_PROTO_VERSION"] or ln > P["VMD_MAX_PAYLOAD"]:
                res["protocol_error"] = "bad frame header ver=%d type=%#x len=%d" % (ver, t, ln)
                break
            payload = recv_exact(s, ln)
            if len(payload) < ln:
                res["eof"] = True
                res["protocol_error"] = "short payload (%d of %d)" % (len(payload), ln)
                frames.append((t, payload))
                break
            frames.append((t, payload))
            total += ln
            if t in stop_types or (stop_when and stop_when(frames)) or total > max_bytes:
                break
    except socket.timeout:
        res["timeout"] = True
    except OSError as e:
        res["protocol_error"] = "socket error: %s" % e
        res["eof"] = True
    return res


def observe(P, fr):
    """Client-side observation of a frame list, as the real client would render it."""
    out = b"".join(p for t, p in fr["frames"] if t == P["VMD_MSG_OUTPUT"])
    err = b"".join(p + b"\n" for t, p in fr["frames"] if t == P["VMD_MSG_ERROR"] and p)
    types = [t for t, _ in fr["frames"]]
    exit_code = None
    for t, p in fr["frames"]:
        if t == P["VMD_MSG_EXIT_CODE"] and len(p) == 4:
            exit_code = struct.unpack("<i", p)[0]
    if P["VMD_MSG_EXIT_CODE"] in types:
        rc = "exit"
    elif P["VMD_MSG_ERROR"] in types:
        rc = "error"
    elif P["VMD_MSG_PONG"] in types:
        rc = "pong"
    elif P["VMD_MSG_STATUS_RSP"] in types:
        rc = "status"
    elif fr["timeout"]:
        rc = "timeout"
    else:
        rc = "closed"
    unknown = [t for t in types if t not in (P["VMD_MSG_OUTPUT"], P["VMD_MSG_ERROR"], P["VMD_MSG_EXIT_CODE"],
                                              P["VMD_MSG_PONG"], P["VMD_MSG_STATUS_RSP"])]
    after_exit = 0
    if P["VMD_MSG_EXIT_CODE"] in types:
        after_exit = len(types) - 1 - types.index(P["VMD_MSG_EXIT_CODE"])
    status_n = None
    for t, p in fr["frames"]:
        if t == P["VMD_MSG_STATUS_RSP"]:
            m = re.match(rb"active_clients=(\d+)", p)
            status_n = int(m.group(1)) if m else -1
    return dict(reply=rc, stdout=out, stderr=err, exit=exit_code, eof=fr["eof"], timeout=fr["timeout"],
                protocol_error=fr["protocol_error"], nframes=len(types), unknown_types=unknown,
                frames_after_exit=after_exit, status_n=status_n)


def raw_client(dm, kind, blob, rng, expect_out_len=None, io_timeout=45.0, hold=0.05, barrier=None):
    # io_timeout: a session on an idle machine takes milliseconds; 45 s without a byte is "never"
    """Play one client behaviour of Vmd.tla (Request(kind) + the scripted disconnect) over a raw socket."""
    P = dm.P
    EX = P["VMD_MSG_LOAD_EXEC"]
    info = dict(kind=kind, via="raw")
    try:
        s = dm.connect(io_timeout)
    except OSError as e:
        return dict(info, reply="refused", error=str(e), stdout=b"", stderr=b"", exit=None)
    half = rng.random() < 0.5            # half-close (SHUT_WR) instead of close: the error reply stays readable
    try:
        def finish_read(**kw):
            return observe(P, read_frames(s, P, **kw))

        def send(b):
            try:
                s.sendall(b)
                return True
            except OSError:
                return False             # the daemon already closed the connection: allowed

        def end_of_request():
            """the scripted disconnect of a malformed client"""
            if half:
                try:
                    s.shutdown(socket.SHUT_WR)
                except OSError:
                    pass
                return finish_read()
            return dict(reply="closed", stdout=b"", stderr=b"", exit=None, unobserved=True)

        if kind == "exec":
            if barrier is not None:
                # all sessions of the round are parked in recv_payload, then proceed together: their threads
                # are alive at the same time whatever the scheduler does (first-use races need that)
                send(header(P, EX, len(blob)))
                try:
                    barrier.wait(timeout=10)
                except threading.BrokenBarrierError:
                    pass
                send(blob)
            else:
                send(header(P, EX, len(blob)) + blob)
            o = finish_read(stop_types=(P["VMD_MSG_EXIT_CODE"],))
            if o["reply"] == "exit":     # anything after the exit frame?
                s.settimeout(5.0)
                tail = read_frames(s, P)
                o["frames_after_exit"] = len(tail["frames"])
        elif kind == "ping":
            send(header(P, P["VMD_MSG_PING"], 0))
            o = finish_read()
        elif kind == "status":
            send(header(P, P["VMD_MSG_STATUS"], 0))
            o = finish_read()
        elif kind == "connect_close":
            o = dict(reply="closed", stdout=b"", stderr=b"", exit=None, unobserved=True)
        elif kind == "garbage_short":
            n = rng.randint(1, P["VMD_HEADER_SIZE"] - 1)
            send(bytes(rng.getrandbits(8) for _ in range(n)))
            time.sleep(rng.random() * hold)
            o = end_of_request()
        elif kind == "garbage":
            n = rng.randint(P["VMD_HEADER_SIZE"], 96)
            g = bytearray(rng.getrandbits(8) for _ in range(n))
            if g[0] == P["VMD_PROTO_VERSION"]:
                g[0] ^= 0x80
            send(bytes(g))
            o = finish_read()
        elif kind == "badver":
            v = rng.choice([x for x in (0, 2, 3, 0x7F, 0xFF) if x != P["VMD_PROTO_VERSION"]])
            send(header(P, EX, len(blob), version=v) + (blob if rng.random() < 0.5 else b""))
            o = finish_read()
        elif kind == "toolong":
            ln = rng.choice([P["VMD_MAX_PAYLOAD"] + 1, 0x7FFFFFFF, 0x80000000, 0xFFFFFFFF])
            send(header(P, EX, ln) + (blob if rng.random() < 0.5 else b""))
            o = finish_read()
        elif kind == "zerolen":
            send(header(P, EX, 0))
            o = finish_read()
        elif kind == "unktype":
            cand = [t for t in (0x00, 0x05, 0x0F, 0x10, 0x11, 0x13, 0x7F, 0xFF)
                    if t not in (EX, P["VMD_MSG_PING"], P["VMD_MSG_STATUS"], P.get("VMD_MSG_SHUTDOWN", -1))]
            send(header(P, rng.choice(cand), 0))
            o = finish_read()
        elif kind == "hdronly":          # header, then hold the connection without sending the payload
            send(header(P, EX, len(blob)))
            s.settimeout(hold + rng.random() * hold)
            held = observe(P, read_frames(s, P))
            s.settimeout(io_timeout)
            if held["reply"] != "timeout":
                o = held                 # the server answered or closed although the payload was still due
            else:
                o = end_of_request()
            o["held"] = True
        elif kind in ("trunc0", "trunc1", "truncm1"):
            cut = {"trunc0": 0, "trunc1": 1, "truncm1": len(blob) - 1}[kind]
            send(header(P, EX, len(blob)) + blob[:cut])
            o = end_of_request()
        elif kind == "notmodule":
            n = len(blob)
            junk = bytes(rng.getrandbits(8) for _ in range(n)) if rng.random() < 0.5 else b"XVM\x01" + blob[4:]
            send(header(P, EX, n) + junk)
            o = finish_read()
        elif kind == "hostile":
            send(header(P, EX, len(blob)) + blob)
            o = finish_read()
        elif kind == "disc_before":      # full request, gone before any output is read
            send(header(P, EX, len(blob)) + blob)
            o = dict(reply="closed", stdout=b"", stderr=b"", exit=None, unobserved=True)
        elif kind == "disc_mid":         # gone while the program is still printing
            send(header(P, EX, len(blob)) + blob)
            o = finish_read(stop_when=lambda fr: any(t == P["VMD_MSG_OUTPUT"] for t, _ in fr))
            o["unobserved"] = True
        elif kind == "disc_after":       # gone after the last output byte, without reading the exit frame
            send(header(P, EX, len(blob)) + blob)
            want = expect_out_len or 0
            o = finish_read(stop_when=lambda fr: sum(len(p) for t, p in fr if t == P["VMD_MSG_OUTPUT"]) >= want)
            o["unobserved"] = True
        else:
            raise ValueError("unknown behaviour %r" % kind)
    finally:
        try:
            s.close()
        except OSError:
            pass
    o.update(info)
    o["half_close"] = half
    return o


# ----------------------------------------------------------------- the real client
def cli_client(dm, nano_vm, nvm_path, workdir, tag, timeout=120.0):
    """`nano_vm --daemon x.nvm`.  stdout/stderr go to files, never to pipes: a daemon launched lazily by the
    client inherits its stderr and would keep a pipe open for ever."""
    so, se = os.path.join(workdir, tag + ".out"), os.path.join(workdir, tag + ".err")
    with open(so, "wb") as fo, open(se, "wb") as fe:
        p = subprocess.Popen([nano_vm, "--daemon", nvm_path], env=dm.client_env, stdin=subprocess.DEVNULL,
                             stdout=fo, stderr=fe)
        try:
            rc = p.wait(timeout=timeout)
            to = False
        except subprocess.TimeoutExpired:
            p.kill()
            p.wait()
            rc, to = None, True
    return dict(via="cli", kind="exec", stdout=open(so, "rb").read(), stderr=open(se, "rb").read(), exit=rc,
                timeout=to, reply="timeout" if to else "exit")


def standalone(nano_vm, nvm_path, env=None, timeout=120.0):
    e = dict(os.environ)
    e.update(env or {})
    e.pop("NANOLANG_VERIF_VMD_DIR", None)
    p = subprocess.run([nano_vm, nvm_path], env=e, stdin=subprocess.DEVNULL, stdout=subprocess.PIPE,
                       stderr=subprocess.PIPE, timeout=timeout)
    return dict(stdout=p.stdout, stderr=p.stderr, exit=p.returncode)


# ----------------------------------------------------------------- scenario player
def play(dm, clients, rng, nano_vm, workdir, jitter_ms=3.0, sync_payload=False):
    """clients: list of dict(id, kind, via, blob, path, expect_out_len, after=<index or None>, delay).
    Starts one thread per client; `after` = index of the client that has to be finished first ("after" gap of
    the spec's arrival schedule), otherwise clients start together, perturbed by a seeded jitter.
    Returns the observations in the order of `clients`."""
    res = [None] * len(clients)
    done = [threading.Event() for _ in clients]
    seeds = [rng.getrandbits(32) for _ in clients]
    delays = [rng.random() * jitter_ms / 1000.0 for _ in clients]
    nsync = sum(1 for c in clients if c["via"] == "raw" and c["kind"] == "exec" and c.get("after") is None)
    barrier = threading.Barrier(nsync) if sync_payload and nsync > 1 else None

    def run(i):
        c = clients[i]
        try:
            if c.get("after") is not None:
                done[c["after"]].wait(600)
            time.sleep(delays[i])
            r = random.Random(seeds[i])
            if c["via"] == "cli":
                res[i] = cli_client(dm, nano_vm, c["path"], workdir, "c%s" % c["id"])
            else:
                res[i] = raw_client(dm, c["kind"], c["blob"], r, expect_out_len=c.get("expect_out_len"),
                                    barrier=barrier if (c["kind"] == "exec" and c.get("after") is None) else None)
        except Exception as e:          # a broken driver must not look like a verdict
            res[i] = dict(via=c["via"], kind=c["kind"], reply="driver_error", error=repr(e), stdout=b"", stderr=b"",
                          exit=None)
        finally:
            done[i].set()

    th = [threading.Thread(target=run, args=(i,), daemon=True) for i in range(len(clients))]
    for t in th:
        t.start()
    for t in th:
        t.join(900)
    return res


def jsonable(o):
    if isinstance(o, bytes):
        return dict(len=len(o), head=o[:200].decode(errors="replace"), sha=hex(zlib.crc32(o)))
    if isinstance(o, dict):
        return {k: jsonable(v) for k, v in o.items() if k != "blob"}
    if isinstance(o, (list, tuple)):
        return [jsonable(x) for x in o]
    return o


if __name__ == "__main__":
    # manual use: vmd_clients.py <repo-build-tree> <kind> [file.nvm]  - one behaviour against a fresh private daemon
    tree, kind = sys.argv[1], sys.argv[2]
    P = parse_protocol(os.path.join(tree, "src/nanovm/vmd_protocol.h"))
    blob = open(sys.argv[3], "rb").read() if len(sys.argv) > 3 else b""
    d = os.path.join(os.environ.get("VERIF_SCRATCH", "/var/tmp"), "vmdc.%d" % os.getpid())
    with Daemon(os.path.join(tree, "bin/nano_vmd"), d, P) as dm:
        o = raw_client(dm, kind, blob, random.Random(1))
        print(json.dumps(jsonable(o), indent=1))
        print(json.dumps(dm.health()))
    import shutil
    shutil.rmtree(d, ignore_errors=True)
