/*
 * fake_cop - scripted stand-in for nano_cop (C16).
 *
 * It *is* the real co-process (src/nanovm/cop_main.c is compiled into it; healthy steps run the real
 * handle_init / handle_ffi_req, whose output is captured and forwarded), plus one fault taken from a
 * behaviour of spec/CopProtocol.tla:
 *
 *   FAKE_COP_SCRIPT="step=<beforeready|afterready|reqreadK|replyK|midreplyK>,kind=<kind>,bad=<hex>,die=<0|1>,sched=<copfirst|vmfirst|free>"
 *   FAKE_COP_STATE=<file>   created by the first instance; later instances (relaunches) are healthy
 *   FAKE_COP_LOG=<file>     one line when the fault is performed
 *
 * kinds: exit0 exit1 kill closein closeout, or a message fault: the bytes `bad` (computed by the spec:
 * CopProtocol!BadMsg) are written where the regular message was due; die=1: exit(0) afterwards.
 * Semantics of every (step, kind) are those of CopProtocol!Apply.
 *
 * sched: the order of the fault and the VM's next step is a race in reality.  copfirst: the VM (our parent)
 * is SIGSTOPped while the fault is performed and resumed 40 ms later by a detached helper; vmfirst: the
 * fault is delayed by 80 ms so that the VM runs until it blocks; free: no interference.
 */
#define main cop_real_main
#include "nanovm/cop_main.c"
#undef main

#include <errno.h>
#include <fcntl.h>
#include <signal.h>
#include <sys/mman.h>
#include <sys/stat.h>
#include <sys/types.h>
#include <sys/syscall.h>
#include <time.h>

static char f_step[32] = "none", f_kind[32] = "none", f_sched[16] = "free";
static uint8_t f_bad[64];
static size_t f_badlen = 0;
static int f_die = 0, f_done = 0, out_closed = 0;
static pid_t vm_pid;

static void flog(const char *what) {
    const char *p = getenv("FAKE_COP_LOG");
    if (!p) return;
    int fd = open(p, O_WRONLY | O_CREAT | O_APPEND, 0644);
    if (fd < 0) return;
    char line[160];
    int n = snprintf(line, sizeof line, "{\"pid\":%d,\"step\":\"%s\",\"kind\":\"%s\",\"sched\":\"%s\",\"what\":\"%s\"}\n",
                     (int)getpid(), f_step, f_kind, f_sched, what);
    if (write(fd, line, (size_t)n) < 0) { /* diagnostics only */ }
    close(fd);
}

static void parse_script(void) {
    const char *s = getenv("FAKE_COP_SCRIPT");
    if (!s) return;
    char buf[512];
    snprintf(buf, sizeof buf, "%s", s);
    for (char *tok = strtok(buf, ","); tok; tok = strtok(NULL, ",")) {
        char *eq = strchr(tok, '=');
        if (!eq) continue;
        *eq++ = 0;
        if (!strcmp(tok, "step")) snprintf(f_step, sizeof f_step, "%s", eq);
        else if (!strcmp(tok, "kind")) snprintf(f_kind, sizeof f_kind, "%s", eq);
        else if (!strcmp(tok, "sched")) snprintf(f_sched, sizeof f_sched, "%s", eq);
        else if (!strcmp(tok, "die")) f_die = atoi(eq);
        else if (!strcmp(tok, "bad")) {
            size_t n = strlen(eq) / 2;
            if (n > sizeof f_bad) n = sizeof f_bad;
            for (size_t i = 0; i < n; i++) { unsigned x; sscanf(eq + 2 * i, "%2x", &x); f_bad[i] = (uint8_t)x; }
            f_badlen = n;
        }
    }
}

static void msleep(int ms) { struct timespec ts = {ms / 1000, (ms % 1000) * 1000000L}; nanosleep(&ts, NULL); }

static bool wr(const void *p, size_t n) {
    if (out_closed || n == 0) return true;              /* EBADF, ignored by cop_main.c as well */
    const uint8_t *b = p;
    while (n) { ssize_t k = write(STDOUT_FILENO, b, n); if (k < 0) { if (errno == EINTR) continue; return false; } b += k; n -= (size_t)k; }
    return true;
}

/* run a piece of the real co-process with its stdout captured */
static int cap_saved = -1, cap_fd = -1;
static void capture_begin(void) {
    cap_fd = (int)syscall(SYS_memfd_create, "fake_cop_capture", 0);
    if (cap_fd < 0) { perror("memfd_create"); _exit(99); }
    cap_saved = out_closed ? -1 : dup(STDOUT_FILENO);
    dup2(cap_fd, STDOUT_FILENO);
}
static uint8_t *capture_end(size_t *n) {
    off_t len = lseek(cap_fd, 0, SEEK_END);
    uint8_t *b = malloc((size_t)len + 1);
    lseek(cap_fd, 0, SEEK_SET);
    size_t got = 0;
    while (got < (size_t)len) { ssize_t k = read(cap_fd, b + got, (size_t)len - got); if (k <= 0) break; got += (size_t)k; }
    *n = got;
    if (cap_saved >= 0) { dup2(cap_saved, STDOUT_FILENO); close(cap_saved); } else close(STDOUT_FILENO);
    close(cap_fd);
    cap_saved = cap_fd = -1;
    return b;
}

static bool at(const char *step) { return !f_done && !strcmp(f_step, step); }
static bool atk(const char *base, int k) { char s[32]; snprintf(s, sizeof s, "%s%d", base, k); return at(s); }

/* before the section in which the fault happens: arrange the schedule */
static void sched_enter(void) {
    if (!strcmp(f_sched, "copfirst")) {
        pid_t h = fork();
        if (h == 0) {                                   /* detached helper: holds no pipe end */
            for (int fd = 0; fd < 256; fd++) close(fd);
            setsid();
            msleep(40);
            kill(vm_pid, SIGCONT);
            _exit(0);
        }
        kill(vm_pid, SIGSTOP);
    } else if (!strcmp(f_sched, "vmfirst")) {
        msleep(80);
    }
}

/* CopProtocol!Apply: returns true when the regular bytes are still to be written by the caller */
static bool do_fault(const uint8_t *reg, size_t reglen) {
    f_done = 1;
    flog("fault");
    if (!strcmp(f_kind, "exit0")) _exit(0);
    if (!strcmp(f_kind, "exit1")) _exit(1);
    if (!strcmp(f_kind, "kill")) { kill(getpid(), SIGKILL); for (;;) pause(); }
    if (!strcmp(f_kind, "closein")) { close(STDIN_FILENO); wr(reg, reglen); return false; }
    if (!strcmp(f_kind, "closeout")) { close(STDOUT_FILENO); out_closed = 1; return false; }
    wr(f_bad, f_badlen);                                /* message fault: replaces the regular bytes */
    if (f_die) _exit(0);
    return false;
}

int main(void) {
    vm_pid = getppid();
    parse_script();
    const char *st = getenv("FAKE_COP_STATE");
    bool first = true;
    if (st) {
        int fd = open(st, O_WRONLY | O_CREAT | O_EXCL, 0644);
        if (fd < 0) first = false; else close(fd);
    }
    if (!first || !strcmp(f_kind, "none")) { flog("healthy"); return cop_real_main(); }
    flog("start");

    vm_heap_init(&g_heap);
    int served = 0;
    for (;;) {
        CopMsgHeader hdr;
        if (!cop_recv_header(STDIN_FILENO, &hdr)) break;
        switch (hdr.msg_type) {
        case COP_MSG_INIT: {
            capture_begin();
            bool ok = handle_init(STDIN_FILENO, hdr.payload_len);
            size_t n; uint8_t *ready = capture_end(&n);
            if (!ok) { free(ready); goto cleanup; }
            if (at("beforeready")) { sched_enter(); do_fault(ready, n); }
            else {
                if (at("afterready")) sched_enter();
                wr(ready, n);
                if (at("afterready")) do_fault(NULL, 0);
            }
            free(ready);
            break;
        }
        case COP_MSG_FFI_REQ: {
            int k = served + 1;
            if (atk("reqread", k)) { sched_enter(); do_fault(NULL, 0); }
            capture_begin();
            bool ok = handle_ffi_req(STDIN_FILENO, hdr.payload_len);
            size_t n; uint8_t *reply = capture_end(&n);
            if (!ok) { free(reply); goto cleanup; }
            if (atk("reply", k)) { sched_enter(); do_fault(reply, n); }
            else if (atk("midreply", k) && n > COP_HEADER_SIZE) {
                size_t half = (n - COP_HEADER_SIZE) / 2;
                sched_enter();
                wr(reply, COP_HEADER_SIZE + half);
                do_fault(reply + COP_HEADER_SIZE + half, n - COP_HEADER_SIZE - half);
            } else wr(reply, n);
            free(reply);
            served = k;
            break;
        }
        case COP_MSG_SHUTDOWN:
            goto cleanup;
        default:
            if (hdr.payload_len > 0) {
                uint8_t *discard = malloc(hdr.payload_len);
                if (discard) { cop_recv_payload(STDIN_FILENO, discard, hdr.payload_len); free(discard); }
            }
            break;
        }
    }
cleanup:
    vm_ffi_shutdown();
    if (g_module) nvm_module_free(g_module);
    vm_heap_destroy(&g_heap);
    return 0;
}
