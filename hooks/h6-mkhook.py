#!/usr/bin/env python3
"""Regenerate hook H6 (parser recovery-loop progress) in a checkout of the repository.

usage: cd <tree>; python3 /verif/hooks/h6-mkhook.py     (then: git diff > /verif/hooks/h6-parser-progress.patch)

The 34 loops of src/parser.c are identified by their order of appearance (every line `while (...) {` / `do {`),
not by line number, so the script survives edits that keep the set of loops; it stops if the count differs.
The helper block is h6-helper.txt next to this script.  Everything inserted is inside #ifdef NANOLANG_VERIF.
"""
import os, re, sys
HERE = os.path.dirname(os.path.abspath(__file__))
NAMES = ["fnsig_params", "type_generic_a", "type_generic_b", "type_generic_c", "type_generic_d", "type_fn_params", "parameters",
         "prefix_op_args", "prefix_call_args", "generic_type_args", "array_literal", "unsafe_expr_block", "anon_struct_literal",
         "struct_literal", "qualified_name", "generic_union_fields", "tuple_literal", "call_args", "cond_clauses", "postfix_dot",
         "union_fields", "block", "unsafe_block", "struct_def", "enum_def", "union_generic_params", "union_def",
         "union_variant_fields", "match_arms", "requires", "ensures", "import_symbols", "program", "toplevel_unsafe_skip"]
p = "src/parser.c"
src = open(p).read()
if "NANOLANG_VERIF" in src:
    sys.exit("parser.c already carries NANOLANG_VERIF code")
lines = src.split("\n")
heads = [i for i, s in enumerate(lines) if re.match(r"^\s*(while|do)\b.*\{\s*$", s)]
if len(heads) != len(NAMES):
    sys.exit("expected %d loops in parser.c, found %d: revise NAMES" % (len(NAMES), len(heads)))


def match_close(start):
    depth, i, state, opened = 0, start, None, False
    while i < len(lines):
        s, j = lines[i], 0
        while j < len(s):
            c = s[j]
            if state == "blk":
                if s.startswith("*/", j):
                    state = None; j += 2; continue
                j += 1; continue
            if state in ("str", "chr"):
                if c == "\\":
                    j += 2; continue
                if c == ('"' if state == "str" else "'"):
                    state = None
                j += 1; continue
            if s.startswith("//", j):
                break
            if s.startswith("/*", j):
                state = "blk"; j += 2; continue
            if c == '"':
                state = "str"; j += 1; continue
            if c == "'":
                state = "chr"; j += 1; continue
            if c == "{":
                depth += 1; opened = True
            elif c == "}":
                depth -= 1
                if opened and depth == 0:
                    return i
            j += 1
        if state in ("str", "chr"):
            state = None
        i += 1
    sys.exit("no closing brace for the loop at line %d" % (start + 1))


ins = {}
def add(idx, text):
    ins.setdefault(idx, []).append(text)


for i, name in zip(heads, NAMES):
    s = lines[i]
    ind = re.match(r"\s*", s).group(0)
    pe = "&parser" if "&parser" in s or name == "program" else "p"
    close = match_close(i)
    add(i, "#ifdef NANOLANG_VERIF\n%sNLV_LOOP_DECL(%s)\n#endif" % (ind, name))
    add(i + 1, "#ifdef NANOLANG_VERIF\n%s    NLV_LOOP_ITER(%s, %s);\n#endif" % (ind, pe, name))
    add(close + 1, "#ifdef NANOLANG_VERIF\n%sNLV_LOOP_EXIT(%s, %s);\n#endif" % (ind, pe, name))
k = [i for i, s in enumerate(lines) if s.startswith("#define MAX_PARSER_ERRORS")][0]
add(k + 1, open(os.path.join(HERE, "h6-helper.txt")).read().rstrip("\n"))
k = [i for i, s in enumerate(lines) if s.strip() == "parser.last_error_message = NULL;"][0]
add(k + 1, "#ifdef NANOLANG_VERIF\n    nlv_mark(\"parse_begin\", token_count, 0);\n#endif")
k = [i for i, s in enumerate(lines) if s.strip() == "if (parser.error_count > 0) {"][0]
add(k, "#ifdef NANOLANG_VERIF\n    nlv_mark(\"parse_end\", parser.pos, parser.error_count);\n#endif")
out = []
for i, s in enumerate(lines):
    out += ins.get(i, [])
    out.append(s)
open(p, "w").write("\n".join(out))
print("hooked %d loops" % len(NAMES))
